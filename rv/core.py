"""Case scheduling, verdicts, evidence, known findings.  See DESIGN.md section 2."""
import hashlib
import importlib
import json
import os
import random
import subprocess
import sys
import time
import traceback

VERIF = os.path.dirname(os.path.dirname(os.path.abspath(__file__)))
REPO = os.environ.get("VERIF_REPO", "/repo")
PYTHON = "/venv/bin/python"
DEPS = os.path.join(VERIF, ".deps")


def case_seed(base, prop, index):
    h = hashlib.sha256(("%s/%s/%d" % (base, prop, index)).encode()).digest()
    return int.from_bytes(h[:8], "little")


class Result:
    """Per-case accumulator handed to a check's run_case()."""

    def __init__(self, seed):
        self.seed = seed
        self.violations = []
        self.bins = {}
        self.events = {}
        self.cycles = 0
        self.desc = {}
        self.nontrivial = True
        self._sig = hashlib.sha256()
        self.unjudged = 0

    def violation(self, mechanism, detail, **extra):
        if len(self.violations) < 20:
            v = {"mechanism": mechanism, "detail": str(detail)[:2000]}
            v.update(extra)
            self.violations.append(v)

    def bin(self, name, n=1):
        self.bins[name] = self.bins.get(name, 0) + n

    def event(self, name, n=1):
        self.events[name] = self.events.get(name, 0) + n

    def sig(self, *objs):
        """Fold stimulus into the distinctness signature of this case."""
        for o in objs:
            self._sig.update(repr(o).encode())

    def to_json(self):
        return {
            "seed": self.seed, "violations": self.violations, "bins": self.bins, "events": self.events,
            "cycles": self.cycles, "desc": self.desc, "nontrivial": self.nontrivial,
            "sig": self._sig.hexdigest()[:16], "unjudged": self.unjudged,
        }


def load_check(prop):
    return importlib.import_module("rv.checks.%s" % prop.lower())


# ------------------------------------------------------------------------------ worker

def worker_main(argv):
    prop, tier = argv[0], argv[1]
    seeds = [int(x) for x in argv[2:]]
    import faulthandler
    faulthandler.enable()
    mod = load_check(prop)
    for s in seeds:
        res = Result(s)
        t0 = time.time()
        try:
            mod.run_case(random.Random(s), tier, res)
            out = res.to_json()
        except Exception:
            out = res.to_json()
            out["error"] = traceback.format_exc()[-3000:]
        out["wall"] = round(time.time() - t0, 3)
        sys.stdout.write(json.dumps(out, default=str) + "\n")
        sys.stdout.flush()


# ------------------------------------------------------------------------------ parent

def ensure_deps():
    """Install icontract next to the repo's interpreter (offline wheelhouse) if it is missing."""
    if os.path.isdir(os.path.join(DEPS, "icontract")):
        return True
    try:
        subprocess.run([PYTHON, "-m", "pip", "install", "-q", "--no-index", "--find-links",
                        "/opt/veriftools/wheels", "--target", DEPS, "icontract"],
                       check=True, stdout=subprocess.DEVNULL, stderr=subprocess.DEVNULL, timeout=300)
        return True
    except Exception:
        return False


def load_known():
    """known_findings.json (committed, never written at run time)."""
    out = []
    path = os.path.join(VERIF, "known_findings.json")
    if os.path.exists(path):
        with open(path) as f:
            out += json.load(f).get("findings", [])
    ddir = os.path.join(VERIF, "known_findings.d")
    if os.path.isdir(ddir):
        for name in sorted(os.listdir(ddir)):
            if name.endswith(".json"):
                with open(os.path.join(ddir, name)) as f:
                    out += json.load(f).get("findings", [])
    return out


def run_property(prop, tier, base_seed, jobs=None, n_cases=None, only_seeds=None, quiet=False):
    t0 = time.time()
    mod = load_check(prop)
    if not jobs:
        jobs = int(os.environ.get("VERIF_JOBS", "16"))
        throttle = os.path.join(VERIF, ".jobs_default")      # git-ignored; only present while many checks are being developed at once
        if os.path.exists(throttle) and "VERIF_JOBS" not in os.environ:
            jobs = int(open(throttle).read().strip() or 16)
    if only_seeds is not None:
        seeds = list(only_seeds)
    else:
        n = n_cases or mod.CASES[tier]
        seeds = [case_seed(base_seed, prop, i) for i in range(n)]
    jobs = max(1, min(jobs, len(seeds)))
    chunks = [seeds[i::jobs] for i in range(jobs)]
    env = dict(os.environ)
    env["PYTHONHASHSEED"] = "0"
    env["LUNA_VERIF"] = "1"
    env["PYTHONPATH"] = os.pathsep.join([REPO, VERIF, DEPS])
    env["PYTHONDONTWRITEBYTECODE"] = "1"
    timeout = getattr(mod, "TIMEOUT", {"quick": 900, "thorough": 4 * 3600})[tier]
    if os.environ.get("VERIF_TIMEOUT"):          # wall-clock watchdog override (a loaded machine is not a verdict)
        timeout = int(os.environ["VERIF_TIMEOUT"])
    import tempfile
    procs = []
    for ch in chunks:
        # worker output goes to temp files (not pipes): a pipe that fills up would block the worker until the
        # parent gets round to reading it, which serialises the workers
        fo = tempfile.TemporaryFile(mode="w+", prefix="rv-out-")
        fe = tempfile.TemporaryFile(mode="w+", prefix="rv-err-")
        p = subprocess.Popen([PYTHON, "-m", "rv.core", "--worker", prop, tier] + [str(s) for s in ch],
                             stdout=fo, stderr=fe, env=env, cwd=VERIF, text=True)
        procs.append((p, ch, fo, fe))
    results, worker_errors = [], []
    deadline = t0 + timeout
    for p, ch, fo, fe in procs:
        timed_out = False
        try:
            p.wait(timeout=max(1, deadline - time.time()))
        except subprocess.TimeoutExpired:
            p.kill()
            p.wait()
            timed_out = True
            worker_errors.append("watchdog: worker exceeded %ds" % timeout)
        fo.seek(0)
        out = fo.read()
        fe.seek(0)
        err = fe.read()
        fo.close()
        fe.close()
        got = 0
        for line in out.splitlines():
            line = line.strip()
            if line.startswith("{"):
                try:
                    results.append(json.loads(line))
                    got += 1
                except ValueError:
                    pass
        if got != len(ch) and not timed_out:
            worker_errors.append("worker returned %d/%d cases rc=%s stderr=%s" % (got, len(ch), p.returncode, err[-1500:]))
    return aggregate(prop, tier, base_seed, mod, results, worker_errors, time.time() - t0, quiet=quiet)


def aggregate(prop, tier, base_seed, mod, results, worker_errors, wall, quiet=False):
    known = [k for k in load_known() if k.get("property") == prop]
    open_mechs = {k["mechanism"]: k for k in known if k.get("status") == "open"}
    bins, events = {}, {}
    cycles = 0
    violations, known_hits, errors = [], {}, []
    sigs = set()
    unjudged = 0
    for r in results:
        for k, v in r.get("bins", {}).items():
            bins[k] = bins.get(k, 0) + v
        for k, v in r.get("events", {}).items():
            events[k] = events.get(k, 0) + v
        cycles += r.get("cycles", 0)
        unjudged += r.get("unjudged", 0)
        if r.get("error"):
            errors.append({"seed": r["seed"], "error": r["error"]})
        if r.get("nontrivial") and not r.get("error"):
            sigs.add(r["sig"])
        for v in r.get("violations", []):
            if v["mechanism"] in open_mechs:
                known_hits.setdefault(v["mechanism"], []).append(r["seed"])
            else:
                violations.append((r, v))
    reasons = []
    for b in getattr(mod, "REQUIRED_BINS", []):
        if not bins.get(b):
            reasons.append("bin_never_hit:" + b)
    for e in getattr(mod, "REQUIRED_EVENTS", []):
        if not events.get(e):
            reasons.append("monitor_blind:" + e)
    if errors:
        reasons.append("case_errors:%d" % len(errors))
    reasons += worker_errors
    if not results:
        reasons.append("no_cases_ran")

    # replay files for new violations
    replay_dir = os.path.join(os.environ.get("VERIF_REPLAY_DIR") or os.path.join(VERIF, "replays"), prop)
    lines = []
    seen_cases = set()
    for r, v in violations:
        if r["seed"] in seen_cases:
            continue
        seen_cases.add(r["seed"])
        os.makedirs(replay_dir, exist_ok=True)
        path = os.path.join(replay_dir, "%s_%d.json" % (tier, r["seed"]))
        with open(path, "w") as f:
            json.dump({"property": prop, "tier": tier, "case_seed": r["seed"], "base_seed": base_seed,
                       "violations": r["violations"], "desc": r.get("desc"), "events": r.get("events"),
                       "bins": r.get("bins")}, f, indent=1, default=str)
        lines.append("VIOLATION property=%s replay=%s" % (prop, path))
        if len(lines) >= 10:
            break
    for mech, seeds in sorted(known_hits.items()):
        k = open_mechs[mech]
        print("KNOWN-FINDING: property=%s %s: %s (%d cases)" % (prop, mech, k.get("what", ""), len(seeds)))
    for ln in lines:
        print(ln)
    if violations and not quiet:
        r, v = violations[0]
        print("  first: mechanism=%s detail=%s" % (v["mechanism"], v["detail"][:600]))
        mechs = {}
        for _, v in violations:
            mechs[v["mechanism"]] = mechs.get(v["mechanism"], 0) + 1
        print("  mechanisms:", json.dumps(mechs))

    good = [r for r in results if not r.get("error")]
    samples = []
    for r in good[:3] + [r for r, _ in violations[:2]]:
        samples.append({"case_seed": r["seed"], "desc": r.get("desc"), "events": r.get("events"),
                        "bins": r.get("bins"), "cycles": r.get("cycles"),
                        "verdict": "violated" if r.get("violations") else "held"})
    evidence = {
        "property_id": prop, "tier": tier, "seed": int(base_seed), "level": "exploration",
        "coverage": {
            "evaluations": len(results),
            "distinct_nontrivial": len(sigs),
            "rule": getattr(mod, "RULE", ""),
            "samples": samples or [{"note": "no case completed"}],
            "exhaustive": bool(getattr(mod, "EXHAUSTIVE", False)),
            "events": events, "bins": bins, "cycles_simulated": cycles,
            "required_bins": list(getattr(mod, "REQUIRED_BINS", [])),
            "required_events": list(getattr(mod, "REQUIRED_EVENTS", [])),
            "unjudged": unjudged,
            "inconclusive_reasons": reasons,
            "known_findings_hit": {m: len(s) for m, s in known_hits.items()},
            "violating_cases": len(seen_cases),
        },
        "assumptions": list(getattr(mod, "ASSUMPTIONS", [])),
        "wall_s": round(wall, 2),
        "violations": len(violations),
    }
    # runs against a scratch tree (VERIF_REPO set by tools/mut.py / tools/eval_seeds.py) redirect their evidence, so
    # that /verif/evidence only ever holds evidence of runs against /repo
    evdir = os.environ.get("VERIF_EVIDENCE_DIR") or os.path.join(VERIF, "evidence")
    os.makedirs(evdir, exist_ok=True)
    with open(os.path.join(evdir, "%s.json" % prop), "w") as f:
        json.dump(evidence, f, indent=1, default=str)
    if violations:
        verdict, rc = "violated", 1
    elif reasons:
        verdict, rc = "inconclusive", 2
        print("INCONCLUSIVE property=%s reason=%s" % (prop, "; ".join(reasons)[:1500]))
        for e in errors[:2]:
            print("  case_seed=%s\n%s" % (e["seed"], e["error"]))
    else:
        verdict, rc = "held", 0
    if not quiet:
        print("%s %s tier=%s seed=%s cases=%d distinct=%d cycles=%d wall=%.1fs" % (
            prop, verdict.upper(), tier, base_seed, len(results), len(sigs), cycles, wall))
        print("  events:", json.dumps(events, sort_keys=True))
        print("  bins:", json.dumps(bins, sort_keys=True))
    return rc


if __name__ == "__main__":
    if len(sys.argv) > 1 and sys.argv[1] == "--worker":
        worker_main(sys.argv[2:])
