"""USB 2.0 full-speed line coding reference (chapter 7.1.8 - 7.1.10, 7.1.13).  No luna imports.

Symbols are one character per bit time: 'J' (D+ high, D- low: idle / differential 1 at full speed),
'K' (D+ low, D- high), '0' (SE0, both low), '1' (SE1, both high: never legal).

  SYNC = KJKJKJKK   (NRZI of 0000 0001 starting from the idle J)
  NRZI : a 0 bit toggles the line, a 1 bit leaves it unchanged
  bit stuffing: after six consecutive 1 bits a 0 is inserted (before NRZI); bytes are sent LSB first
  EOP  = SE0 SE0 J

USB 2.0 7.1.9: "the data one that ends the Sync Pattern is counted as the first one in a sequence".
`count_sync_one` selects that (True) or a stuffer that starts counting at the first payload bit (False).
The two only differ when the first byte has its five low bits set (no legal PID has).
"""

SYNC_BITS = [0, 0, 0, 0, 0, 0, 0, 1]
SYNC = "KJKJKJKK"
EOP = "00J"


def bits_of(data):
    out = []
    for b in data:
        for i in range(8):
            out.append((b >> i) & 1)
    return out


def stuff(bits, ones=0):
    """Returns (stuffed bit list, list of indices in the output that are stuffed bits)."""
    out, where = [], []
    for b in bits:
        out.append(b)
        if b:
            ones += 1
            if ones == 6:
                where.append(len(out))
                out.append(0)
                ones = 0
        else:
            ones = 0
    return out, where


def nrzi(bits, start="J"):
    out = []
    cur = start
    for b in bits:
        if not b:
            cur = "K" if cur == "J" else "J"
        out.append(cur)
    return "".join(out)


def encode(data, count_sync_one=True, eop=True):
    """Full wire image of a packet: SYNC + stuffed NRZI payload (+ EOP)."""
    st, _ = stuff(bits_of(data), ones=1 if count_sync_one else 0)
    return nrzi(SYNC_BITS + st) + (EOP if eop else "")


def ambiguous_first_byte(data):
    return len(data) > 0 and (data[0] & 0x1F) == 0x1F


def stuffed_payload(data, count_sync_one=True):
    return stuff(bits_of(data), ones=1 if count_sync_one else 0)


def decode(symbols):
    """Decode a wire image.  Returns dict(ok, why, data(bytes), stuffed(int), nbits)."""
    r = {"ok": False, "why": "", "data": b"", "stuffed": 0, "nbits": 0}
    if not symbols.startswith(SYNC):
        r["why"] = "no_sync"
        return r
    body = symbols[len(SYNC):]
    k = body.find("0")
    if k < 0:
        r["why"] = "no_eop"
        return r
    tail = body[k:]
    body = body[:k]
    if "1" in body:
        r["why"] = "se1"
        return r
    if tail != EOP:
        r["why"] = "bad_eop:" + tail[:8]
        return r
    prev = "K"
    bits = []
    for s in body:
        bits.append(1 if s == prev else 0)
        prev = s
    return bits_to_bytes(bits, r)


def bits_to_bytes(bits, r, ones=1):
    """Remove stuffing (USB rule, counting the sync one by default) and pack LSB first."""
    out = []
    i = 0
    while i < len(bits):
        b = bits[i]
        out.append(b)
        i += 1
        if b:
            ones += 1
            if ones == 6:
                if i < len(bits):
                    if bits[i] != 0:
                        r["why"] = "stuff_violation"
                        return r
                    r["stuffed"] += 1
                    i += 1
                else:
                    r["why"] = "missing_final_stuff"
                    return r
                ones = 0
        else:
            ones = 0
    r["nbits"] = len(out)
    if len(out) % 8:
        r["why"] = "not_byte_multiple:%d" % len(out)
        return r
    data = bytearray()
    for j in range(0, len(out), 8):
        v = 0
        for t in range(8):
            v |= out[j + t] << t
        data.append(v)
    r["data"] = bytes(data)
    r["ok"] = True
    return r


def selftest():
    # ACK handshake, the waveform printed in every USB primer: SYNC, PID 0xD2, EOP
    assert encode(bytes([0xD2])) == "KJKJKJKK" + "JJKJJKKK" + "00J"
    # DATA0 with empty payload: C3 00 00  (PID 1100 0011 lsb first = 11000011 -> KKJKJKKK ... )
    assert encode(bytes([0xC3]))[8:16] == "KKJKJKKK"
    # six ones inside a payload force a stuffed zero = a transition after six unchanged bit times
    e = encode(bytes([0xC3, 0x7E]))           # 7E = 0111 1110 -> lsb first 0 111111 0
    body = e[16:-3]
    assert len(body) == 9 and decode(e)["data"] == bytes([0xC3, 0x7E]) and decode(e)["stuffed"] == 1
    # ff ff ff: 24 ones -> stuffed after every six (the sync one counts: first after five payload ones)
    st, where = stuffed_payload(b"\xff\xff\xff")
    assert where[0] == 5 and len(st) == 24 + 4
    st, where = stuffed_payload(b"\xff\xff\xff", count_sync_one=False)
    assert where[0] == 6 and len(st) == 24 + 4
    # round trip
    import random
    r = random.Random(5)
    for _ in range(300):
        d = bytes(r.choice([0xFF, 0x7F, 0xFE, 0x00, 0x3F, 0xFC, r.randrange(256)]) for _ in range(r.randint(1, 12)))
        dd = decode(encode(d))
        assert dd["ok"] and dd["data"] == d, (d, dd)
        # no more than six equal symbols after sync except via stuffing rule: 7 equal symbols never occur
        e = encode(d)[:-3]
        run = 1
        for a, b in zip(e, e[1:]):
            run = run + 1 if a == b else 1
            assert run <= 7      # six ones = seven equal symbols at most (transition + 6 holds)
    return True
