"""Minimal witnesses for the C46 findings (see findings/C46.md).

usage: PYTHONPATH=/repo:/verif /venv/bin/python -m rv.ref.c46_witness <scenario> [...]   (no argument: all)

Bench: the real SuperSpeedStreamInEndpoint(endpoint_number=3, max_packet_size=16) wired, exactly as
USB3ProtocolLayer / USB3LinkLayer wire it, to the real DataPacketTransmitter (consumer of tx / tx_zlp / tx_length /
tx_sequence_number / tx_endpoint_number) and the real TransactionPacketGenerator (consumer of handshakes_out).  The
testbench plays the input stream, the host's ACK TPs (handshakes_in) and the `ready` of the two header queues and of the
payload stream.  Printed: every header the two blocks hand to the link layer (that is what would go on the wire) and every
payload word.
"""
import sys

from amaranth import Elaboratable, Module

from rv.sim import Bench

EP = 3
MPS = 16


class Rig(Elaboratable):
    def __init__(self):
        from luna.gateware.usb.usb3.endpoints.stream import SuperSpeedStreamInEndpoint
        from luna.gateware.usb.usb3.link.data import DataPacketTransmitter
        from luna.gateware.usb.usb3.protocol.transaction import TransactionPacketGenerator
        self.ep = SuperSpeedStreamInEndpoint(endpoint_number=EP, max_packet_size=MPS)
        self.dtx = DataPacketTransmitter()
        self.tpg = TransactionPacketGenerator()

    def elaborate(self, platform):
        m = Module()
        m.submodules.ep, m.submodules.dtx, m.submodules.tpg = self.ep, self.dtx, self.tpg
        i = self.ep.interface
        m.d.comb += [
            self.dtx.data_sink.stream_eq(i.tx),
            self.dtx.send_zlp.eq(i.tx_zlp),
            self.dtx.data_length.eq(i.tx_length),
            self.dtx.endpoint_number.eq(i.tx_endpoint_number),
            self.dtx.sequence_number.eq(i.tx_sequence_number),
            self.dtx.direction.eq(i.tx_direction),
            self.tpg.interface.connect(i.handshakes_out),
        ]
        return m


def run(name, script, cycles, payload_ready=lambda c: 1, tp_ready=lambda c: 1):
    """script: {cycle: [("word", bytes, last) | ("tp", seq, nump, rty)]}; actions are sampled by the DUT at that cycle."""
    rig = Rig()
    ep, dtx, tpg = rig.ep, rig.dtx, rig.tpg
    st, hin = ep.stream, ep.interface.handshakes_in
    b = Bench(rig, domain="ss", max_cycles=cycles + 5)
    dh, th = dtx.header_source, tpg.header_source
    b.watch(st.ready, st.valid, dh.valid, dh.ready, dh.header.dw0, dh.header.dw1, th.valid, th.ready, th.header.dw0, th.header.dw1,
            dtx.data_source.valid, dtx.data_source.ready, dtx.data_source.payload, dtx.data_source.last, ep.interface.tx_zlp,
            ep.interface.tx.valid, ep.interface.tx.ready, ep.interface.tx.last)
    print("--- %s" % name)
    pending_words = []

    def driver():
        for c in range(1, cycles + 1):
            # values set now are sampled at edge c
            acts = script.get(c, [])
            b.set(hin.ack_received, 0); b.set(hin.number_of_packets, 0); b.set(hin.next_sequence, 0); b.set(hin.retry_required, 0)
            b.set(hin.endpoint_number, 0)
            for a in acts:
                if a[0] == "tp":
                    b.set(hin.ack_received, 1); b.set(hin.endpoint_number, EP); b.set(hin.next_sequence, a[1])
                    b.set(hin.number_of_packets, a[2]); b.set(hin.retry_required, a[3])
                    print("  %4d host: ACK TP seq=%d NumP=%d Rty=%d" % (c, a[1], a[2], a[3]))
                elif a[0] == "word":
                    pending_words.append(a)
            if pending_words:
                w = pending_words[0]
                n = len(w[1])
                b.set(st.valid, (1 << n) - 1); b.set(st.payload, int.from_bytes(w[1].ljust(4, b"\0"), "little")); b.set(st.last, int(w[2]))
            else:
                b.set(st.valid, 0); b.set(st.last, 0)
            b.set(dh.ready, 1); b.set(th.ready, tp_ready(c)); b.set(dtx.data_source.ready, payload_ready(c))
            yield
            if pending_words and b.get(st.ready) and b.get(st.valid):
                w = pending_words.pop(0)
                print("  %4d stream: word %s%s accepted" % (b.cycle, w[1].hex(), " last" if w[2] else ""))

    def monitor(b):
        c = b.cycle
        if b.get(ep.interface.tx_zlp):
            print("  %4d endpoint: tx_zlp" % c)
        if b.get(ep.interface.tx.valid) and b.get(ep.interface.tx.last) and not b.get(ep.interface.tx.ready):
            print("  %4d endpoint: last word offered on tx while tx.ready=0" % c)
        if b.get(dh.valid) and b.get(dh.ready):
            dw1 = b.get(dh.header.dw1)
            print("  %4d wire: DATA HEADER seq=%d endpoint=%d length=%d" % (c, dw1 & 0x1F, (dw1 >> 8) & 0xF, dw1 >> 16))
        if b.get(th.valid) and b.get(th.ready):
            dw1 = b.get(th.header.dw1)
            sub = {1: "ACK", 2: "NRDY", 3: "ERDY", 5: "STALL"}.get(dw1 & 0xF, dw1 & 0xF)
            print("  %4d wire: %s TP endpoint=%d" % (c, sub, (dw1 >> 8) & 0xF))
        if b.get(dtx.data_source.valid) and b.get(dtx.data_source.ready):
            print("  %4d wire: payload word %08x valid=%s%s" % (c, b.get(dtx.data_source.payload), bin(b.get(dtx.data_source.valid)),
                                                           " last" if b.get(dtx.data_source.last) else ""))

    b.add_monitor(monitor)
    b.add_driver(driver())
    b.run()


def words(data, last=True):
    out = []
    for i in range(0, len(data), 4):
        out.append(("word", data[i:i + 4], last and i + 4 >= len(data)))
    return out


D16 = bytes(range(0x10, 0x20))
D16B = bytes(range(0x30, 0x40))


def sc_nrdy_endpoint():
    """D1: NRDY / ERDY name endpoint 0"""
    run("nrdy_endpoint: IN request before any data, then a 6-byte transfer", {3: [("tp", 0, 1, 0)], 10: words(b"\xa1\xa2\xa3\xa4\xa5\xa6"),
                                                                              25: [("tp", 0, 1, 0)]}, 40)


def sc_ack_no_data():
    """D2 + D3: ACK+request with nothing buffered is not answered; sequence number not advanced"""
    run("ack_no_data: packet 0 sent, ACK(seq 1, NumP 1) while nothing is buffered, second packet later",
        {2: words(b"\xa1\xa2\xa3\xa4\xa5\xa6"), 8: [("tp", 0, 1, 0)], 20: [("tp", 1, 1, 0)], 70: words(b"\xb1\xb2\xb3\xb4\xb5\xb6"),
         80: [("tp", 1, 1, 0)]}, 95)


def sc_erdy_spurious():
    """D4: erdy_required sticks"""
    run("erdy_spurious: NRDY/ERDY once, later packets each announce themselves with an ERDY and ignore an IN request meanwhile",
        {3: [("tp", 0, 1, 0)], 10: words(b"\xa1\xa2\xa3\xa4\xa5\xa6"), 25: [("tp", 0, 1, 0)], 35: [("tp", 1, 0, 0)],
         50: words(b"\xb1\xb2\xb3\xb4\xb5\xb6"), 53: [("tp", 1, 1, 0)], 70: [("tp", 1, 1, 0)]}, 85, tp_ready=lambda c: c % 4 == 0)


def sc_erdy_lost():
    """D9: IN request in the cycle the packet completes"""
    run("erdy_lost: IN request sampled in the cycle the `last` word is accepted; header queue takes the NRDY after 3 cycles",
        {5: words(b"\xa1\xa2\xa3\xa4\xa5\xa6"), 6: [("tp", 0, 1, 0)]}, 60, tp_ready=lambda c: c % 4 == 0)


def sc_last_stall():
    """D5: last word lost"""
    run("last_stall: 8-byte packet, link transmitter takes payload words only every 3rd cycle",
        {2: words(b"\xa1\xa2\xa3\xa4\xa5\xa6\xa7\xa8"), 8: [("tp", 0, 1, 0)]}, 40, payload_ready=lambda c: c % 3 == 0)


def sc_single_word():
    """D6: header fields of a 1..4 byte packet"""
    run("single_word: first packet 16 bytes (seq 0), second packet 3 bytes (must be seq 1, endpoint 3, length 3)",
        {2: words(D16, last=False) + words(b"\xa1\xa2\xa3"), 10: [("tp", 0, 1, 0)], 30: [("tp", 1, 1, 0)]}, 50)


def sc_zlp():
    """D7: ZLP header"""
    run("zlp: 16-byte transfer (= max packet size) with `last`: data packet seq 0, then ZLP (must be seq 1, endpoint 3)",
        {2: words(D16), 10: [("tp", 0, 1, 0)], 30: [("tp", 1, 1, 0)], 45: [("tp", 2, 0, 0)]}, 55)


def sc_zlp_pure_ack():
    """D8a: ZLP after a pure ACK keeps the old sequence number"""
    run("zlp_pure_ack: full packet acknowledged with NumP=0, ZLP on the next IN request, its acknowledgement (seq 2, NumP 0)",
        {2: words(D16), 10: [("tp", 0, 1, 0)], 30: [("tp", 1, 0, 0)], 40: [("tp", 1, 1, 0)], 50: [("tp", 2, 0, 0)]}, 60)


def sc_zlp_retry():
    """D8b: retransmitted ZLP advances the sequence number"""
    run("zlp_retry: ZLP (seq 1) retried with Rty=1, then acknowledged with seq 2 NumP 0",
        {2: words(D16), 10: [("tp", 0, 1, 0)], 30: [("tp", 1, 1, 0)], 40: [("tp", 1, 1, 1)], 50: [("tp", 2, 0, 0)]}, 60)


def sc_stuck():
    """D10: `last` word accepted in the ACK cycle"""
    run("stuck: 16-byte packet sent; the `last` word of a following 4-byte transfer is accepted in the cycle of the ACK TP",
        {2: words(D16, last=False), 10: [("tp", 0, 1, 0)], 30: [("tp", 1, 0, 0), ("word", b"\xa1\xa2\xa3\xa4", True)],
         40: [("tp", 1, 1, 0)], 55: [("tp", 1, 1, 0)], 56: [("word", b"\xb1\xb2\xb3\xb4", False)]}, 75)


SCENARIOS = {"nrdy_endpoint": sc_nrdy_endpoint, "ack_no_data": sc_ack_no_data, "erdy_spurious": sc_erdy_spurious, "erdy_lost": sc_erdy_lost,
             "last_stall": sc_last_stall, "single_word": sc_single_word, "zlp": sc_zlp, "zlp_pure_ack": sc_zlp_pure_ack,
             "zlp_retry": sc_zlp_retry, "stuck": sc_stuck}

if __name__ == "__main__":
    for n in (sys.argv[1:] or list(SCENARIOS)):
        SCENARIOS[n]()
