"""Bit-serial reference CRCs, written from the USB 2.0 / USB 3.2 specifications.

No luna imports. Every function works on python ints / bytes.
"""

# ----------------------------------------------------------------------------- USB2

def crc5_bits(value, nbits):
    """USB CRC5 (x^5+x^2+1), preset ones, data LSB first, result inverted.

    Returns the 5-bit value in *transmission order packed MSB-first*: i.e. the int
    whose bit4 is the first CRC bit on the wire.
    """
    reg = 0x1F
    for i in range(nbits):
        bit = (value >> i) & 1
        top = (reg >> 4) & 1
        reg = (reg << 1) & 0x1F
        if bit ^ top:
            reg ^= 0x05
    return reg ^ 0x1F


def usb2_token_crc5(addr, endp):
    """CRC5 field of a USB2 token as it sits in byte 2 bits [7:3] (bit3 sent first)."""
    v = (addr & 0x7F) | ((endp & 0xF) << 7)
    c = crc5_bits(v, 11)            # bit4 = first on wire
    # first-on-wire goes into the lowest bit position of the field
    out = 0
    for i in range(5):
        if (c >> (4 - i)) & 1:
            out |= 1 << i
    return out


def usb2_crc16(data):
    """USB CRC16 (x^16+x^15+x^2+1) over bytes; returns the two bytes as transmitted."""
    reg = 0xFFFF
    for byte in data:
        for i in range(8):
            bit = (byte >> i) & 1
            top = (reg >> 15) & 1
            reg = (reg << 1) & 0xFFFF
            if bit ^ top:
                reg ^= 0x8005
    reg ^= 0xFFFF
    # transmitted MSB (x^15) first; wire is LSB-first within bytes
    bits = [(reg >> (15 - i)) & 1 for i in range(16)]
    b0 = sum(bits[i] << i for i in range(8))
    b1 = sum(bits[8 + i] << i for i in range(8))
    return bytes([b0, b1])


# ----------------------------------------------------------------------------- USB3

def usb3_crc5(value, nbits=11):
    """USB3 link-command / link-control-word CRC-5.

    Same polynomial and procedure as the USB2 token CRC5 (x^5+x^2+1, preset ones, LSB first,
    inverted, sent MSB first).  Returned packed so that bit0 is the first bit on the wire,
    i.e. ready to be placed at bits [11:16] of a little-endian 16-bit link command word.
    """
    c = crc5_bits(value, nbits)
    out = 0
    for i in range(5):
        if (c >> (4 - i)) & 1:
            out |= 1 << i
    return out


def usb3_crc16(data):
    """USB3 header-packet CRC-16: poly 0x100B, preset ones, data LSB first, inverted, MSB-first out.

    `data` = the 12 header bytes in transmission order. Returns 16-bit int laid out so that its
    little-endian bytes are the two CRC bytes in transmission order.
    """
    reg = 0xFFFF
    for byte in data:
        for i in range(8):
            bit = (byte >> i) & 1
            top = (reg >> 15) & 1
            reg = (reg << 1) & 0xFFFF
            if bit ^ top:
                reg ^= 0x100B
    reg ^= 0xFFFF
    bits = [(reg >> (15 - i)) & 1 for i in range(16)]
    return sum(b << i for i, b in enumerate(bits))


def usb3_crc32(data):
    """USB3 data-packet-payload CRC-32 (IEEE 802.3: reflected 0x04C11DB7, preset ones, inverted)."""
    reg = 0xFFFFFFFF
    for byte in data:
        reg ^= byte
        for _ in range(8):
            if reg & 1:
                reg = (reg >> 1) ^ 0xEDB88320
            else:
                reg >>= 1
    return reg ^ 0xFFFFFFFF


def selftest():
    assert usb2_crc16(bytes([0, 1, 2, 3])) == bytes([0xEF, 0x7A])   # 0xF75E, bit-reversed per byte
    assert usb3_crc32(b"123456789") == 0xCBF43926
    import struct
    # recorded flash-drive capture (repository test vectors) and a recorded header packet
    assert usb3_crc32(struct.pack('<I', 0x02000112)) == 0x34984B13
    assert usb3_crc32(struct.pack('<IIII', 0x03000112, 0x09000000, 0x520013FE, 0x02010100) + bytes([3, 1])) == 0x540AA487
    assert usb3_crc16(struct.pack('<III', 0x00000280, 0x00010004, 0)) == 0x1845
    assert usb3_crc5(0, 11) == 2
    # SETUP token to address 0 / endpoint 0 is the canonical 2D 00 10
    assert usb2_token_crc5(0, 0) == 0x10 >> 3, usb2_token_crc5(0, 0)
    return True
