"""Minimal witnesses for the findings of C37 / C38 (see findings/C37.md, findings/C38.md).

usage:  PYTHONPATH=/repo:/verif /venv/bin/python -m rv.ref.c37_witness b2b|midcmd|race     (VERIF_REPO tree first on PYTHONPATH)

Plain cycle-by-cycle simulation of the real HeaderPacketReceiver: source.ready = queue.ready = sink.valid = 1, idle words
on the sink except for the listed headers; prints every link command sent, every header delivered and recovery_required.
"""
import sys

from rv.sim import Bench
from rv.ref.c37_link import make_header, HPSTART, decode_link_command, CMD_NAMES


def run(title, levels, headers, cycles=135):
    """levels: [(cycle, signal name, value)], headers: [(cycle of HPSTART, dw0, sequence number)]"""
    from luna.gateware.usb.usb3.link.receiver import HeaderPacketReceiver
    dut = HeaderPacketReceiver()
    b = Bench(dut, domain="ss", freq=125e6, max_cycles=cycles + 5)
    b.watch(dut.source.valid, dut.source.ready, dut.source.payload, dut.source.ctrl, dut.queue.valid, dut.queue.ready,
            dut.queue.header.dw0, dut.recovery_required)
    sink = {}
    for c, dw0, seq in headers:
        for i, w in enumerate((HPSTART,) + make_header(dw0, 0, 0, seq)):
            sink[c + i] = (w, 0xF if i == 0 else 0)
    state = {"cmd": False}

    def monitor(b):
        g = b.get
        if g(dut.source.valid) and g(dut.source.ready):
            if state["cmd"]:
                cmd = decode_link_command(g(dut.source.payload), g(dut.source.ctrl))
                print("cycle %3d: %s %d" % (b.cycle, CMD_NAMES[cmd[0]], cmd[1]))
            state["cmd"] = not state["cmd"]
        if g(dut.queue.valid) and g(dut.queue.ready):
            print("cycle %3d: queue delivers header dw0=%#010x" % (b.cycle, g(dut.queue.header.dw0)))
        if g(dut.recovery_required):
            print("cycle %3d: recovery_required" % b.cycle)

    def driver():
        b.set(dut.source.ready, 1)
        b.set(dut.queue.ready, 1)
        b.set(dut.sink.valid, 1)
        for t in range(1, cycles):          # what is set now is sampled in cycle t
            data, ctrl = sink.get(t, (0, 0))
            b.set(dut.sink.payload, data)
            b.set(dut.sink.ctrl, ctrl)
            for c, name, val in levels:
                if c == t:
                    b.set(getattr(dut, name), val)
            yield

    print("==", title)
    b.add_monitor(monitor)
    b.add_driver(driver())
    b.run()


def main(which):
    if which == "b2b":
        run("C37: headers 0 and 1 back-to-back (HPSTART of header 1 right after the last word of header 0), header 2 later",
            [(1, "enable", 1)], [(30, 0xAAAA0000, 0), (35, 0xBBBB0001, 1), (50, 0xCCCC0002, 2)])
        run("C37: the same with one idle word between headers 0 and 1",
            [(1, "enable", 1)], [(30, 0xAAAA0000, 0), (36, 0xBBBB0001, 1), (50, 0xCCCC0002, 2)])
    elif which == "midcmd":
        run("C38: header 0 ends in cycle 34; enable falls in cycle 40 (LGOOD 0 on the wire), rises in cycle 90",
            [(1, "enable", 1), (40, "enable", 0), (90, "enable", 1)], [(30, 0xAAAA0000, 0)])
    elif which == "race":
        run("C38: header 0 ends in cycle 34; enable falls in cycle 37 (LGOOD 0 not yet dispatched), rises in cycle 90; "
            "the partner re-sends header 0 in cycle 110",
            [(1, "enable", 1), (37, "enable", 0), (90, "enable", 1)], [(30, 0xAAAA0000, 0), (110, 0xAAAA0000, 0)])
        run("C38: enable falls in cycle 33, one cycle before the last word of header 0; rises in cycle 90",
            [(1, "enable", 1), (33, "enable", 0), (90, "enable", 1)], [(30, 0xAAAA0000, 0)])
    else:
        print(__doc__)


if __name__ == "__main__":
    main(sys.argv[1] if len(sys.argv) > 1 else "")
