"""Shared by C12 and C14: per-endpoint reference models and the multi-endpoint session harness.

Reference side (pure python, written from USB 2.0 chapter 8/9 and the property statements, no luna code):

* ``InStreamModel``   bulk/interrupt IN endpoint fed by a byte stream: the accepted bytes are cut into packets at
                      `last` or at max-packet-size (a transfer ending on a full packet is followed by a ZLP);
                      packet k is sent with the endpoint's toggle, a valid host ACK advances k and the toggle,
                      anything else makes the next IN repeat PID and payload; ClearFeature(ENDPOINT_HALT) => DATA0.
* ``OutStreamModel``  bulk OUT endpoint: good data with the expected toggle is ACKed and delivered exactly once
                      (or NAKed and not delivered), good data with the other toggle is ACKed and dropped, damaged
                      data gets no handshake; ClearFeature(ENDPOINT_HALT) => expects DATA0.
* ``SignalInModel``   status endpoint: every IN is answered with the signal value, toggle advances on ACK.

Each model is advanced ONLY by the transactions the host model addressed to that endpoint number/direction (and
by completed clear-halt requests naming it): this is the projection oracle of C12 and the toggle oracle of C14.

Harness side: ``Session`` builds a real ``USBDevice`` with a standard control endpoint and a random set of stream
IN / stream OUT / signal IN endpoints, attaches the USB2 host model, feeds the IN streams with position-tagged
bytes, drains the OUT streams, and offers transaction-level operations (with fault operators) as generators.
Internal spy monitor: an endpoint's ``interface.tx.valid`` / ``interface.handshakes_out.*`` may only be asserted
while the last good token addressed to the device carries that endpoint's number and direction.
"""
from rv.ref import usb2 as U
from rv.usb2host import UTMIHost


def tag(key, pos):
    """Position tag: byte `pos` of stream `key` (different streams give different sequences)."""
    return (pos * 29 + key * 53 + (pos >> 3) * 7 + (pos >> 8) * 11 + 1) & 0xFF


DATA_PID = {0: U.DATA0, 1: U.DATA1}


# ------------------------------------------------------------------------------------------------ models

class InStreamModel:
    kind = "in"

    def __init__(self, n, mps):
        self.n, self.mps = n, mps
        self.packets = []          # [(payload bytes, cycle at which its last byte was accepted)]
        self._cur = bytearray()
        self.k = 0                 # packet the endpoint has to send next
        self.toggle = 0            # ... with this PID toggle
        self.unacked = False       # packet k was sent at least once without a valid ACK
        self.last_ack_cycle = -10000
        self.accepted = 0
        self.own_token_since = True    # a good token for our address was seen since the last data packet of this endpoint
        # "flex" judgement (sessions that drive flush / discard, where packet boundaries depend on timing): a data
        # packet must carry the next contiguous kept bytes of the stream (<= mps), a retry the same payload again.
        self.flex = False
        self.kept = bytearray()        # accepted and not discarded bytes
        self.kept_last = []
        self.pos = 0                   # number of kept bytes the host has ACKed
        self.last_sent = None          # payload of the packet that awaits its ACK
        self.zlp_due = False
        self.discards = 0
        self.foreign_ack_seen = False  # the host ACKed another device while this endpoint's packet was un-ACKed

    def accept(self, byte, last, cycle):
        self.kept.append(byte)
        self.kept_last.append(last)
        self._cur.append(byte)
        self.accepted += 1
        if last or len(self._cur) == self.mps:
            full = len(self._cur) == self.mps
            self.packets.append((bytes(self._cur), cycle))
            self._cur = bytearray()
            if last and full:
                self.packets.append((b"", cycle))

    def pending(self):
        if self.flex:
            return self.unacked or len(self.kept) > self.pos or self.zlp_due
        return self.k < len(self.packets)

    def flex_acked(self, cycle):
        sent = self.last_sent or b""
        self.pos += len(sent)
        self.zlp_due = len(sent) == self.mps and self.pos > 0 and bool(self.kept_last[self.pos - 1])
        self.last_sent = None
        self.toggle ^= 1
        self.unacked = False
        self.last_ack_cycle = cycle

    def on_discard(self):
        """`discard` sampled high: everything accepted and not yet ACKed is gone; the toggle does not move."""
        del self.kept[self.pos:]
        del self.kept_last[self.pos:]
        self.unacked = False
        self.last_sent = None
        self.zlp_due = False

    def available(self, cycle, slack):
        return self.k < len(self.packets) and self.packets[self.k][1] + slack <= cycle and \
            self.last_ack_cycle + slack <= cycle

    def acked(self, cycle):
        self.k += 1
        self.toggle ^= 1
        self.unacked = False
        self.last_ack_cycle = cycle

    def clear_halt(self):
        self.toggle = 0


class OutStreamModel:
    kind = "out"

    def __init__(self, n, mps):
        self.n, self.mps = n, mps
        self.expected = 0            # toggle the endpoint accepts next
        self.stream = bytearray()    # bytes the endpoint has to deliver (payloads of ACKed new packets)
        self.observed = bytearray()  # bytes seen leaving the endpoint's stream
        self.framing = []            # (byte, first, last) of every beat leaving the endpoint's stream
        self.sent = 0                # position counter for tagging
        self.last_payload = b""
        self.last_toggle = None
        self.own_token_since = True

    def clear_halt(self):
        self.expected = 0


class SignalInModel:
    kind = "sig"

    def __init__(self, n, width, endianness):
        self.n, self.width, self.endianness = n, width, endianness
        self.toggle = 0
        self.unacked = False
        self.latched = None
        self.value = 0
        self.own_token_since = True
        self.foreign_ack_seen = False

    def encode(self, value):
        nbytes = (self.width + 7) // 8
        return (value & ((1 << self.width) - 1)).to_bytes(nbytes, self.endianness)

    def clear_halt(self):
        self.toggle = 0


# ------------------------------------------------------------------------------------------------ host

class Host(UTMIHost):
    """UTMIHost that reports every packet it has put on the wire to a callback and remembers the exact byte timing
    (gap list, lead-in) of the last packet so that it can be replayed identically on another device."""
    on_sent = None
    last_detail = None

    def send_raw(self, data, *, gaps=None, lead=None, **kw):
        data = bytes(data)
        if not (isinstance(gaps, list)):
            gaps = self._gaps(len(data), gaps)          # same draw order as UTMIHost.send_raw: gaps first, then lead
        if lead is None:
            lead = self.rng.choice([1, 1, 1, 2, 3]) if self.gap_profile != "none" else 1
        self.last_detail = (list(gaps), lead)
        yield from super().send_raw(data, gaps=list(gaps), lead=lead, **kw)
        if self.on_sent is not None:
            self.on_sent(self.sent[-1][1])


# ------------------------------------------------------------------------------------------------ session

LAYOUTS = [
    # (stream IN numbers, stream OUT numbers, signal IN number, numbers/directions without endpoint to poke)
    ((1, 2), (1, 2), 3, (5, 9, 10)),
    ((1, 4), (2, 4), 3, (5, 6, 12)),
    ((1, 9), (1, 9), 5, (3, 8, 13)),          # 1 / 9 differ in the top bit of the endpoint field
    ((2, 3), (3, 11), 7, (1, 10, 15)),
    ((7, 15), (7, 14), 6, (5, 3, 13)),
    ((1,), (1, 2, 3), 4, (5, 9, 6)),
    ((1, 2, 3), (2,), 10, (6, 8, 11)),
]


class Session:
    def __init__(self, rng, res, *, tier="quick", fs60=None, cfg=None):
        self.rng, self.res = rng, res
        self.ops_log = []
        self.focus = None            # OUT endpoint whose own transactions are recorded for the non-interference replay
        self.focus_script = []
        if cfg is not None:
            # an identical second device (same configuration) for replaying one endpoint's own transactions alone
            self.cfg = {k: (dict(v) if isinstance(v, dict) else v) for k, v in cfg.items()}
            self.fs60 = cfg["fs60"]
            self.in_numbers, self.out_numbers = tuple(cfg["in"]), tuple(cfg["out"])
            self.sig_number, self.absent = cfg["sig"][0], ()
            self._init_state()
            return
        self.fs60 = (rng.random() < 0.15) if fs60 is None else fs60
        lay = rng.choice(LAYOUTS)
        self.in_numbers, self.out_numbers, self.sig_number, self.absent = lay
        mps_pool = [8, 8, 16, 16, 32, 64]
        self.cfg = {
            "fs60": self.fs60, "in": {n: rng.choice(mps_pool) for n in self.in_numbers},
            "out": {n: rng.choice(mps_pool) for n in self.out_numbers},
            "sig": (self.sig_number, rng.choice([8, 16, 24, 32, 12]), rng.choice(["little", "big"])),
            "gap_profile": rng.choice(["none", "none", "random", "fixed4", "onestall"]) if not self.fs60 else rng.choice(["random", "fixed4"]),
            "ready_profile": rng.choice(["always", "always", ("random", 0.6), ("every", 2), ("bursty", 6, 8)]),
            "consumer": {n: rng.choice(["always", "always", "always", "random", "stall"]) for n in self.out_numbers},
            "out_buffer": {n: rng.choice([None, None, "mps", "mps+1", "2mps", "3mps"]) for n in self.out_numbers},
            "feed": {n: rng.choice(["dense", "dense", "gappy", "sparse"]) for n in self.in_numbers},
            "order_seed": rng.randrange(1 << 16),
        }
        self._init_state()

    def _init_state(self):
        self.addr = 0
        self.models = {}
        self.eps = {}
        self.last_token = None       # (pid, endpoint) of the last good token addressed to the device
        self.host_acks = 0           # number of valid ACK handshakes the host has sent
        self.consumer_hold = {}      # out endpoint -> forced stall flag
        self.status_ack_of = None    # setup bytes while the host sends the handshake for a status-stage ZLP
        self.feed_hold = {}
        self._build()

    # -------------------------------------------------------------------------------------- construction
    def _build(self):
        import random as _random
        from rv.sim import Bench
        from luna.gateware.interface.utmi import UTMIInterface
        from luna.gateware.usb.usb2.device import USBDevice
        from luna.gateware.usb.usb2.endpoints.stream import USBStreamInEndpoint, USBStreamOutEndpoint
        from luna.gateware.usb.usb2.endpoints.status import USBSignalInEndpoint
        from usb_protocol.emitters import DeviceDescriptorCollection

        cfg, rng, res = self.cfg, self.rng, self.res
        utmi = UTMIInterface()
        dev = USBDevice(bus=utmi)
        if self.fs60:
            dev.always_fs = False
            dev.data_clock = 60e6
        d = DeviceDescriptorCollection()
        with d.DeviceDescriptor() as dd:
            dd.idVendor = 0x1209
            dd.idProduct = 0x0C12
            dd.bNumConfigurations = 1
        with d.ConfigurationDescriptor() as c:
            with c.InterfaceDescriptor() as i:
                i.bInterfaceNumber = 0
        dev.add_standard_control_endpoint(d)
        blocks = []
        for n, mps in cfg["in"].items():
            ep = USBStreamInEndpoint(endpoint_number=n, max_packet_size=mps)
            blocks.append(((n, "in"), ep, InStreamModel(n, mps)))
        for n, mps in cfg["out"].items():
            size = {None: None, "mps": mps, "mps+1": mps + 1, "2mps": 2 * mps, "3mps": 3 * mps}[cfg.get("out_buffer", {}).get(n)]
            ep = USBStreamOutEndpoint(endpoint_number=n, max_packet_size=mps, buffer_size=size)
            model = OutStreamModel(n, mps)
            model.buffer = size if size is not None else 2 * mps - 1
            blocks.append(((n, "out"), ep, model))
        n, width, endian = cfg["sig"]
        ep = USBSignalInEndpoint(width=width, endpoint_number=n, endianness=endian)
        blocks.append(((n, "in"), ep, SignalInModel(n, width, endian)))
        _random.Random(cfg["order_seed"]).shuffle(blocks)       # multiplexer priority order
        for key, ep, model in blocks:
            dev.add_endpoint(ep)
            self.eps[key] = ep
            self.models[key] = model
        self.dev, self.utmi = dev, utmi
        self.b = b = Bench(dev, domain="usb", freq=60e6, max_cycles=120000)
        self.host = Host(b, utmi, rng, timing="fs60" if self.fs60 else "fs12",
                         ready_profile=cfg["ready_profile"], gap_profile=cfg["gap_profile"])
        self.host.on_sent = self._on_host_packet
        self.window = 130 if self.fs60 else 40
        self.slack = 60 if self.fs60 else 25

        spy = []
        for key, ep in self.eps.items():
            itf = ep.interface
            sigs = (itf.tx.valid, itf.handshakes_out.ack, itf.handshakes_out.nak, itf.handshakes_out.stall)
            b.watch(*sigs)
            spy.append((key, self.models[key], sigs))
            m = self.models[key]
            if m.kind == "in":
                b.watch(ep.stream.valid, ep.stream.ready, ep.stream.payload, ep.stream.last, ep.discard)
                b.add_driver(self._feeder(key, ep, m), main=False)
            elif m.kind == "out":
                b.watch(ep.stream.valid, ep.stream.ready, ep.stream.payload, ep.stream.first, ep.stream.last)
                b.add_driver(self._consumer(key, ep, m), main=False)
            else:
                b.watch(ep.signal)
        self._spy = spy
        b.add_monitor(self._monitor)
        res.sig(sorted((k, v) for k, v in cfg.items() if k != "order_seed"))

    # -------------------------------------------------------------------------------------- background
    def _feeder(self, key, ep, m):
        """Feeds an IN stream endpoint with tagged bytes (valid held until ready, random `last`)."""
        b, rng, s = self.b, self.rng, ep.stream
        mode = self.cfg["feed"][key[0]]
        pos = 0
        for _ in range(rng.choice([0, 0, 3, 40, 150]) if mode != "dense" else rng.choice([0, 0, 10])):
            yield
        while True:
            mps = m.mps
            length = rng.choice([1, mps - 1, mps, mps, mps + 1, 2 * mps, 2 * mps, rng.randint(1, 3 * mps), rng.randint(1, mps)])
            for i in range(length):
                while self.feed_hold.get(key):
                    yield
                if mode == "gappy" and rng.random() < 0.3:
                    for _ in range(rng.randint(1, 5)):
                        yield
                b.set(s.valid, 1)
                b.set(s.payload, tag(key[0], pos))
                b.set(s.last, 1 if i == length - 1 else 0)
                b.set(s.first, 1 if i == 0 else 0)
                yield
                while not b.get(s.ready):
                    yield
                pos += 1
                b.set(s.valid, 0)
                b.set(s.last, 0)
            if mode == "sparse":
                for _ in range(rng.choice([0, 20, 100, 300])):
                    yield
            elif rng.random() < 0.3:
                for _ in range(rng.randint(1, 40)):
                    yield

    def _consumer(self, key, ep, m):
        b, rng, s = self.b, self.rng, ep.stream
        mode = self.cfg["consumer"][key[0]]
        while True:
            if self.consumer_hold.get(key):
                b.set(s.ready, 0)
            elif mode == "random":
                b.set(s.ready, 1 if rng.random() < 0.7 else 0)
            else:
                b.set(s.ready, 1)
            yield

    def _on_host_packet(self, data):
        info = U.classify(data)
        if info["kind"] == "token":
            if info["addr"] == self.addr:
                self.last_token = (info["pid"], info["endp"])
                for m in self.models.values():
                    m.own_token_since = True
            else:
                self.last_token = None          # the device must consider itself un-addressed

    def _monitor(self, b):
        res = self.res
        lt = self.last_token
        for key, m, (txv, ack, nak, stall) in self._spy:
            tv = b.get(txv)
            hs = b.get(ack) or b.get(nak) or b.get(stall)
            if tv or hs:
                ok = lt is not None and lt[1] == key[0] and \
                    (lt[0] == U.IN if key[1] == "in" else lt[0] in (U.OUT, U.PING))
                if tv:
                    res.event("ep_tx_valid_cycles")
                    if not ok:
                        res.violation("tx_valid_on_foreign_token", "cycle %d endpoint %s drives tx.valid, last token %s; ops=%s"
                                      % (b.cycle, key, self._lt(), self.ops_log[-6:]))
                if hs:
                    res.event("ep_handshake_requests")
                    if not ok:
                        res.violation("handshake_request_on_foreign_token", "cycle %d endpoint %s requests a handshake, last token %s; ops=%s"
                                      % (b.cycle, key, self._lt(), self.ops_log[-6:]))
            if m.kind == "in":
                ep = self.eps[key]
                s = ep.stream
                if b.get(ep.discard):
                    m.on_discard()                      # (a byte accepted in such a cycle is dropped as well)
                    m.discards += 1
                elif b.get(s.valid) and b.get(s.ready):
                    m.accept(b.get(s.payload), b.get(s.last), b.cycle)
                    res.event("in_stream_bytes_accepted")
            elif m.kind == "out":
                s = self.eps[key].stream
                if b.get(s.valid) and b.get(s.ready):
                    m.observed.append(b.get(s.payload))
                    m.framing.append((b.get(s.payload), b.get(s.first), b.get(s.last)))
                    res.event("out_stream_bytes_delivered")

    def _lt(self):
        if self.last_token is None:
            return None
        return (U.PID_NAMES[self.last_token[0]], self.last_token[1])

    # -------------------------------------------------------------------------------------- helpers
    def log(self, *items):
        self.ops_log.append(" ".join(str(i) for i in items))
        self.res.sig(items)

    def start(self):
        from rv.usb2host import init_device_signals
        init_device_signals(self.b, self.dev, self.utmi)
        if self.fs60:
            self.b.set(self.dev.full_speed_only, 1)
        sig = self.models[(self.sig_number, "in")]
        sig.value = self.rng.getrandbits(sig.width)
        self.b.set(self.eps[(self.sig_number, "in")].signal, sig.value)
        yield from self.host.idle(8)

    def gap(self):
        yield from self.host.gap()

    def send_ack(self, mode):
        """Host handshake after a device data packet.  Returns True iff a valid ACK was put on the wire."""
        h = self.host
        if mode == "ack":
            yield from h.turnaround()
            yield from h.handshake(U.ACK)
            self.host_acks += 1
            self.on_host_ack()
            return True
        if mode == "bad_pid":
            yield from h.turnaround()
            yield from h.send_raw(bytes([U.pid_byte(U.ACK) ^ (1 << self.rng.randrange(8))]))
        elif mode == "overlong":
            yield from h.turnaround()
            yield from h.send_raw(bytes([U.pid_byte(U.ACK), self.rng.randrange(256)]))
        # "none": the host stays silent
        return False

    def on_host_ack(self):
        """hook: the host has put a valid ACK on the wire (after a data packet of this device)"""

    def on_setup_acked(self, setup8):
        """hook: the device has ACKed a SETUP transaction carrying setup8"""

    def stream_keys(self, kind):
        return [k for k, m in self.models.items() if m.kind == kind]

    # -------------------------------------------------------------------------------------- IN transactions
    def op_in(self, n, ackmode="ack", addr=None):
        """IN transaction to endpoint number n.  Judges the response against the endpoint's model."""
        res, b, h = self.res, self.b, self.host
        addr = self.addr if addr is None else addr
        m = self.models.get((n, "in")) if addr == self.addr else None
        if m is not None and m.kind == "sig":
            return (yield from self._op_sig(n, m, ackmode))
        yield from h.token(U.IN, addr, n)
        tc = b.cycle
        pkt = yield from h.wait_response(self.window)
        info = U.classify(pkt.data) if pkt is not None else {"kind": "none"}
        what = self._describe(info)
        self.log("IN", n, "a%d" % addr if addr != self.addr else "", ackmode, "->", what)
        if m is None:
            res.event("tokens_without_endpoint")
            if pkt is not None:
                res.violation("response_to_token_without_endpoint" if addr == self.addr else "response_to_foreign_address",
                              "IN addr=%d ep=%d (no such IN endpoint) answered with %s; ops=%s" % (addr, n, what, self.ops_log[-6:]))
            elif addr != self.addr and ackmode == "ack":
                # the addressed (other) device answered on its own segment; we only see the host's ACK
                yield from h.idle(self.rng.randint(6, 20))
                yield from h.handshake(U.ACK)
                self.host_acks += 1
                self.foreign_ack_hazard()
            return info
        if m.flex:
            return (yield from self._judge_in_flex(n, m, ackmode, pkt, info, what))
        res.event("in_transactions")
        if pkt is None:
            res.violation("in_no_response", "IN ep=%d: no response; ops=%s" % (n, self.ops_log[-6:]))
            return info
        if info["kind"] == "handshake":
            if info["pid"] != U.NAK:
                res.violation("in_unexpected_handshake", "IN ep=%d answered %s; ops=%s" % (n, what, self.ops_log[-6:]))
            else:
                res.event("in_naks")
                if m.unacked and m.foreign_ack_seen:
                    res.violation("in_advanced_by_ack_to_other_device", "IN ep=%d: packet %d un-ACKed, then the host ACKed a transaction of "
                                  "another device address; retry answered NAK (packet dropped); ops=%s" % (n, m.k, self.ops_log[-8:]))
                    m.acked(b.cycle)
                elif m.unacked:
                    res.violation("in_nak_instead_of_retry", "IN ep=%d: packet %d was sent before and not ACKed, retry answered NAK; ops=%s"
                                  % (n, m.k, self.ops_log[-8:]))
                elif m.available(tc, self.slack):
                    res.violation("in_nak_with_packet_ready", "IN ep=%d: packet %d complete since cycle %d, token at %d answered NAK; ops=%s"
                                  % (n, m.k, m.packets[m.k][1], tc, self.ops_log[-8:]))
            return info
        if info["kind"] != "data":
            res.violation("in_malformed_packet", "IN ep=%d answered %s" % (n, what))
            return info
        res.event("in_data_packets")
        payload = bytes(info["payload"])
        obs_toggle = 1 if info["pid"] == U.DATA1 else 0 if info["pid"] == U.DATA0 else None
        retry = m.unacked
        if retry:
            res.bin("in_retry_after_missing_ack")
        if retry and m.foreign_ack_seen and obs_toggle == m.toggle ^ 1 and \
                (m.k + 1 >= len(m.packets) or payload == m.packets[m.k + 1][0]) and payload != m.packets[m.k][0]:
            res.violation("in_advanced_by_ack_to_other_device", "IN ep=%d: packet %d un-ACKed, then the host ACKed a transaction of another "
                          "device address; the retry carries the NEXT packet/toggle (%s); ops=%s" % (n, m.k, what, self.ops_log[-8:]))
            m.acked(b.cycle)
        m.foreign_ack_seen = False
        if not m.pending():
            res.violation("in_data_not_from_stream", "IN ep=%d sent %s but no complete packet is pending (k=%d); ops=%s"
                          % (n, what, m.k, self.ops_log[-8:]))
        else:
            exp = m.packets[m.k][0]
            if payload != exp:
                where = [i for i, (p, _) in enumerate(m.packets) if p == payload and abs(i - m.k) <= 2]
                mech = "in_wrong_packet_sequence" if where else "in_wrong_payload"
                res.violation(mech, "IN ep=%d packet index %d expected %s got %s (matches index %s) retry=%s; ops=%s"
                              % (n, m.k, exp.hex(), payload.hex(), where, retry, self.ops_log[-8:]))
                if where:
                    m.k = where[0]
            if obs_toggle != m.toggle:
                self.toggle_violation((n, "in"), m, obs_toggle, retry)
                if obs_toggle is not None:
                    m.toggle = obs_toggle
            if len(payload) == 0:
                res.bin("in_zlp")
            if len(payload) == m.mps:
                res.bin("in_full_packet")
        m.own_token_since = False
        good = yield from self.send_ack(ackmode)
        if good:
            if m.pending():
                m.acked(b.cycle)
            res.event("in_acked")
        else:
            m.unacked = True
            res.bin("in_ack_withheld_" + ("silent" if ackmode == "none" else "damaged"))
        return info

    def _judge_in_flex(self, n, m, ackmode, pkt, info, what):
        """Judgement for sessions in which the application drives flush / discard: toggle, retry identity and
        stream continuity only (how the stream is cut into packets is C11's subject)."""
        res, b = self.res, self.b
        res.event("in_transactions")
        if pkt is None:
            res.violation("in_no_response", "IN ep=%d: no response; ops=%s" % (n, self.ops_log[-6:]))
            return info
        if info["kind"] == "handshake":
            if info["pid"] != U.NAK:
                res.violation("in_unexpected_handshake", "IN ep=%d answered %s; ops=%s" % (n, what, self.ops_log[-6:]))
            else:
                res.event("in_naks")
                if m.unacked:
                    res.violation("in_nak_instead_of_retry", "IN ep=%d: a packet was sent before and not ACKed (no discard since), retry "
                                  "answered NAK; ops=%s" % (n, self.ops_log[-8:]))
                    m.unacked, m.last_sent = False, None
            return info
        if info["kind"] != "data":
            res.violation("in_malformed_packet", "IN ep=%d answered %s" % (n, what))
            return info
        res.event("in_data_packets")
        payload = bytes(info["payload"])
        obs_toggle = 1 if info["pid"] == U.DATA1 else 0 if info["pid"] == U.DATA0 else None
        retry = m.unacked
        if retry:
            res.bin("in_retry_after_missing_ack")
            if payload != m.last_sent:
                res.violation("in_wrong_packet_sequence", "IN ep=%d retry carries %s, the un-ACKed packet was %s; ops=%s"
                              % (n, payload.hex(), (m.last_sent or b"").hex(), self.ops_log[-8:]))
        else:
            exp = bytes(m.kept[m.pos:m.pos + len(payload)])
            if len(payload) > m.mps or payload != exp or (len(payload) == 0 and not m.zlp_due):
                res.violation("in_wrong_packet_sequence", "IN ep=%d sent %s, the next un-ACKed stream bytes are %s (zlp_due=%s); ops=%s"
                              % (n, payload.hex(), bytes(m.kept[m.pos:m.pos + max(8, len(payload))]).hex(), m.zlp_due, self.ops_log[-8:]))
                at = bytes(m.kept).find(payload, max(0, m.pos - 2 * m.mps)) if payload else -1
                if at >= 0:
                    m.pos = at
        m.last_sent = payload
        if obs_toggle != m.toggle:
            self.toggle_violation((n, "in"), m, obs_toggle, retry)
            if obs_toggle is not None:
                m.toggle = obs_toggle
        if len(payload) == 0:
            res.bin("in_zlp")
        if len(payload) == m.mps:
            res.bin("in_full_packet")
        m.own_token_since = False
        good = yield from self.send_ack(ackmode)
        if good:
            m.flex_acked(b.cycle)
            res.event("in_acked")
        else:
            m.unacked = True
            res.bin("in_ack_withheld_" + ("silent" if ackmode == "none" else "damaged"))
        return info

    def op_flush(self, key, cycles):
        """Application asserts `flush` on a stream IN endpoint for some cycles (flex judgement required)."""
        ep = self.eps[key]
        self.log("FLUSH", key, cycles)
        self.b.set(ep.flush, 1)
        for _ in range(cycles):
            yield
        self.b.set(ep.flush, 0)
        yield

    def op_discard(self, key, cycles):
        """Application asserts `discard` (between transactions).  The model drops everything not yet ACKed; the toggle stays."""
        ep = self.eps[key]
        self.log("DISCARD", key, cycles)
        self.b.set(ep.discard, 1)
        for _ in range(cycles):
            yield
        self.b.set(ep.discard, 0)
        for _ in range(3):
            yield

    def toggle_violation(self, key, m, observed, retry):
        """Overridable classifier for toggle mismatches (C14 narrows known mechanisms here)."""
        self.res.violation("in_wrong_toggle", "IN ep=%d packet %d sent with toggle %s, model expects DATA%d (retry=%s); ops=%s"
                           % (key[0], m.k, observed, m.toggle, retry, self.ops_log[-10:]))

    def foreign_ack_hazard(self):
        """The host has just ACKed the data of ANOTHER device.  An IN endpoint of ours whose last data packet is
        still un-ACKed and which has not seen a token for our address since must not take that ACK; remember the
        situation so that a mis-advance can be given its own (narrow) mechanism name."""
        for key, m in self.models.items():
            if m.kind in ("in", "sig") and m.unacked and not m.own_token_since:
                m.foreign_ack_seen = True
                self.res.bin("foreign_ack_while_waiting_for_ack")

    def _op_sig(self, n, m, ackmode):
        res, b, h = self.res, self.b, self.host
        if not m.unacked:
            m.latched = m.value
        yield from h.token(U.IN, self.addr, n)
        pkt = yield from h.wait_response(self.window)
        info = U.classify(pkt.data) if pkt is not None else {"kind": "none"}
        what = self._describe(info)
        self.log("SIG", n, ackmode, "->", what)
        res.event("sig_transactions")
        if info["kind"] != "data":
            res.violation("sig_no_data", "IN to signal endpoint %d answered %s; ops=%s" % (n, what, self.ops_log[-6:]))
            return info
        obs_toggle = 1 if info["pid"] == U.DATA1 else 0 if info["pid"] == U.DATA0 else None
        payload = bytes(info["payload"])
        if payload not in (m.encode(m.latched), m.encode(m.value)):
            res.violation("sig_wrong_payload", "signal endpoint %d sent %s, value %x latched %x; ops=%s"
                          % (n, payload.hex(), m.value, m.latched, self.ops_log[-6:]))
        if obs_toggle != m.toggle:
            if m.unacked and m.foreign_ack_seen:
                res.violation("in_advanced_by_ack_to_other_device", "signal endpoint %d: packet un-ACKed, then the host ACKed a transaction of "
                              "another device address; toggle advanced (%s); ops=%s" % (n, what, self.ops_log[-8:]))
            else:
                self.sig_toggle_violation(n, m, obs_toggle)
            if obs_toggle is not None:
                m.toggle = obs_toggle
        m.foreign_ack_seen = False
        m.own_token_since = False
        good = yield from self.send_ack(ackmode)
        if good:
            m.toggle ^= 1
            m.unacked = False
            res.event("sig_acked")
        else:
            m.unacked = True
            res.bin("sig_ack_withheld")
        return info

    def sig_toggle_violation(self, n, m, observed):
        self.res.violation("sig_wrong_toggle", "signal endpoint %d sent toggle %s, model expects DATA%d (unacked=%s); ops=%s"
                           % (n, observed, m.toggle, m.unacked, self.ops_log[-10:]))

    def set_signal(self, value):
        m = self.models[(self.sig_number, "in")]
        m.value = value & ((1 << m.width) - 1)
        self.b.set(self.eps[(self.sig_number, "in")].signal, m.value)

    # -------------------------------------------------------------------------------------- OUT transactions
    def op_out(self, n, *, choice="expected", length=None, fault=None, addr=None, ping_first=False, payload=None, allow_overflow=False):
        """OUT transaction.  choice: 'expected' (new data with the toggle the endpoint expects), 'other' (new data,
        wrong toggle), 'repeat' (previous packet again with its toggle).  fault: None | 'crc' | 'truncate' | 'no_data'."""
        res, b, h, rng = self.res, self.b, self.host, self.rng
        addr = self.addr if addr is None else addr
        m = self.models.get((n, "out")) if addr == self.addr else None
        key = (n, "out")
        if m is None:
            toggle = rng.randrange(2)
            length = rng.randint(0, 12) if length is None else length
            data = bytes(tag(40 + n, i) for i in range(length)) if payload is None else payload
        else:
            if choice == "repeat" and m.last_toggle is None:
                choice = "expected"
            if choice == "repeat":
                toggle, data = m.last_toggle, m.last_payload
            else:
                toggle = m.expected if choice == "expected" else m.expected ^ 1
                if length is None:
                    length = rng.choice([0, 1, m.mps - 1, m.mps, m.mps, rng.randint(0, m.mps)])
                if self.consumer_hold.get(key):
                    # never overflow the endpoint's buffer (2*mps-1 bytes): what the endpoint does then is C13's subject
                    room = m.buffer - (len(m.stream) - len(m.observed))
                    if not allow_overflow:
                        length = max(0, min(length, room))
                        payload = None
                    elif length > room:
                        res.bin("out_packet_exceeds_free_buffer")
                data = bytes(tag(16 + n, m.sent + i) for i in range(length)) if payload is None else payload[:m.mps]
        before = len(m.observed) if m is not None else 0
        yield from h.token(U.OUT, addr, n)
        step = {"kind": "out", "token": h.last_detail, "idle": rng.randint(1, 4) if not self.fs60 else rng.randint(3, 20),
                "data": None, "detail": None}
        yield from h.idle(step["idle"])
        pkt_bytes = bytearray(U.data(DATA_PID[toggle], data))
        if fault == "crc":
            i = rng.randrange(1, len(pkt_bytes))
            pkt_bytes[i] ^= 1 << rng.randrange(8)
        elif fault == "truncate":
            pkt_bytes = pkt_bytes[:rng.randint(1, len(pkt_bytes) - 1)]
            if U.classify(bytes(pkt_bytes))["kind"] == "data":      # a shorter packet that happens to be valid
                pkt_bytes[-1] ^= 0x10
        if fault != "no_data":
            yield from h.send_raw(bytes(pkt_bytes))
            step["data"], step["detail"] = bytes(pkt_bytes), h.last_detail
        if key == self.focus and addr == self.addr:
            self.focus_script.append(step)
        pkt = yield from h.wait_response(self.window)
        info = U.classify(pkt.data) if pkt is not None else {"kind": "none"}
        what = self._describe(info)
        self.log("OUT", n, "a%d" % addr if addr != self.addr else "", choice, "DATA%d" % toggle, "len%d" % len(data), fault or "", "->", what)
        if m is None:
            res.event("tokens_without_endpoint")
            if pkt is not None:
                res.violation("response_to_token_without_endpoint" if addr == self.addr else "response_to_foreign_address",
                              "OUT addr=%d ep=%d (no such OUT endpoint) answered %s; ops=%s" % (addr, n, what, self.ops_log[-6:]))
            return info
        res.event("out_transactions")
        hs = info["pid"] if info["kind"] == "handshake" else None
        held = self.consumer_hold.get(key) or self.cfg["consumer"][n] != "always"
        if fault:
            res.bin("out_damaged_data")
            if pkt is not None:
                res.violation("out_handshake_for_bad_data", "OUT ep=%d %s data answered %s; ops=%s" % (n, fault, what, self.ops_log[-6:]))
        elif pkt is None or hs is None or hs not in (U.ACK, U.NAK):
            res.violation("out_no_handshake", "OUT ep=%d good DATA%d len %d answered %s; ops=%s" % (n, toggle, len(data), what, self.ops_log[-6:]))
        elif toggle == m.expected:
            if hs == U.ACK:
                m.expected ^= 1
                m.stream += data
                if choice != "repeat":
                    m.sent += len(data)
                m.last_payload, m.last_toggle = data, toggle
                res.event("out_acked_new")
            else:
                res.bin("out_nak")
                if not held:
                    res.violation("out_nak_with_space", "OUT ep=%d consumer always ready, good expected DATA%d NAKed; ops=%s"
                                  % (n, toggle, self.ops_log[-6:]))
        else:
            res.bin("out_wrong_toggle_sent")
            if hs != U.ACK:
                res.violation("out_repeat_not_acked", "OUT ep=%d DATA%d while DATA%d expected answered %s (must ACK and drop); ops=%s"
                              % (n, toggle, m.expected, what, self.ops_log[-6:]))
        # delivered data
        if not self.consumer_hold.get(key):
            yield from self.drain(key)
            self.check_delivered(key, m, before, data, toggle)
        return info

    def nak_pattern(self, key, between=None):
        """Hold the consumer of OUT endpoint `key`, send full packets until its buffer cannot take one (NAK), optionally run
        `between()` (traffic elsewhere: the next token ends the endpoint's overflow state) and retry while still held,
        then release, drain and retry: the NAKed packet's toggle must still be the expected one."""
        res, rng, m = self.res, self.rng, self.models[key]
        self.consumer_hold[key] = True
        self.log("HOLD", key)
        nak = False
        for _ in range(m.buffer // m.mps + 3):
            info = yield from self.op_out(key[0], choice="expected", fault=None, length=m.mps, allow_overflow=True)
            yield from self.gap()
            if info.get("kind") == "handshake" and info.get("pid") == U.NAK:
                nak = True
                break
        if nak:
            res.bin("out_nak_buffer_full")
            if between is not None:
                yield from between()
                yield from self.gap()
            if rng.random() < 0.5:
                yield from self.op_out(key[0], choice=rng.choice(["expected", "expected", "repeat"]), fault=None, length=m.mps, allow_overflow=True)
                yield from self.gap()
        self.consumer_hold[key] = False
        self.log("RELEASE", key)
        yield from self.drain(key)
        self.check_delivered(key, m)
        info = yield from self.op_out(key[0], choice="expected", fault=None, length=rng.randint(1, m.mps))
        if nak and info.get("kind") == "handshake" and info.get("pid") == U.ACK:
            res.bin("out_retry_after_nak_accepted")
        return nak

    def drain(self, key):
        """Wait until the endpoint's output stream has been idle for 3 cycles (bounded)."""
        b = self.b
        s = self.eps[key].stream
        quiet = 0
        for _ in range(600):
            yield
            quiet = quiet + 1 if not b.get(s.valid) else 0
            if quiet >= 3:
                return

    def check_delivered(self, key, m, before=None, data=b"", toggle=None):
        res = self.res
        obs, exp = bytes(m.observed), bytes(m.stream)
        res.event("out_delivery_checks")
        if obs == exp:
            return
        n = key[0]
        if len(obs) > len(exp) and obs[:len(exp)] == exp:
            extra = obs[len(exp):]
            self.out_extra_violation(key, m, extra, data, toggle)
        elif len(obs) < len(exp) and exp[:len(obs)] == obs:
            self.out_missing_violation(key, m, exp[len(obs):], data, toggle)
        else:
            res.violation("out_delivered_mismatch", "OUT ep=%d delivered %s, expected %s; ops=%s"
                          % (n, obs[-24:].hex(), exp[-24:].hex(), self.ops_log[-8:]))
        m.stream = bytearray(obs)        # resynchronise

    def out_extra_violation(self, key, m, extra, data, toggle):
        self.res.violation("out_delivered_unexpected_data", "OUT ep=%d delivered %d extra bytes %s (last packet DATA%s %s); ops=%s"
                           % (key[0], len(extra), extra[:16].hex(), toggle, bytes(data)[:16].hex(), self.ops_log[-8:]))

    def out_missing_violation(self, key, m, missing, data, toggle):
        self.res.violation("out_acked_data_not_delivered", "OUT ep=%d: %d ACKed bytes missing %s (last packet DATA%s); ops=%s"
                           % (key[0], len(missing), missing[:16].hex(), toggle, self.ops_log[-8:]))

    def op_ping(self, n, addr=None):
        res, h = self.res, self.host
        addr = self.addr if addr is None else addr
        m = self.models.get((n, "out")) if addr == self.addr else None
        yield from h.token(U.PING, addr, n)
        if (n, "out") == self.focus and addr == self.addr:
            self.focus_script.append({"kind": "ping", "token": h.last_detail})
        pkt = yield from h.wait_response(self.window)
        info = U.classify(pkt.data) if pkt is not None else {"kind": "none"}
        what = self._describe(info)
        self.log("PING", n, "->", what)
        if m is None:
            res.event("tokens_without_endpoint")
            if pkt is not None:
                res.violation("response_to_token_without_endpoint" if addr == self.addr else "response_to_foreign_address",
                              "PING addr=%d ep=%d (no such OUT endpoint) answered %s; ops=%s" % (addr, n, what, self.ops_log[-6:]))
        else:
            res.event("ping_transactions")
            if info["kind"] != "handshake" or info["pid"] not in (U.ACK, U.NAK):
                res.violation("ping_no_handshake", "PING ep=%d answered %s" % (n, what))
            elif info["pid"] == U.NAK:
                res.bin("ping_nak")
        return info

    # -------------------------------------------------------------------------------------- control traffic
    def op_control(self, setup8, *, status_ack="ack", between=None, stop_after=None, retry_status=False):
        """Control transfer on endpoint 0 (not judged; returns what happened).
        stop_after: 'setup' (abandon after the setup stage) | None.  between: generator function run between the
        setup stage and the next stage (traffic to other endpoints).  status_ack: ack mode for a status-stage ZLP."""
        h, rng = self.host, self.rng
        out = {"setup_acked": False, "data": b"", "status": None, "completed": False, "stalled": False}
        r = yield from h.setup_transaction(self.addr, setup8)
        out["setup_acked"] = r.get("kind") == "handshake" and r.get("pid") == U.ACK
        self.log("SETUP", bytes(setup8).hex(), "->", self._describe(r))
        if out["setup_acked"]:
            self.on_setup_acked(bytes(setup8))
        if not out["setup_acked"] or stop_after == "setup":
            return out
        yield from h.gap()
        if between is not None:
            yield from between()
        wlength = setup8[6] | (setup8[7] << 8)
        is_in = bool(setup8[0] & 0x80)
        if wlength and is_in:
            got = 0
            for _ in range(12):
                yield from h.token(U.IN, self.addr, 0)
                pkt = yield from h.wait_response(self.window)
                info = U.classify(pkt.data) if pkt is not None else {"kind": "none"}
                self.log("EP0 IN ->", self._describe(info))
                if info["kind"] == "data":
                    yield from self.send_ack("ack")
                    out["data"] += bytes(info["payload"])
                    yield from h.gap()
                    if len(info["payload"]) < 64 or len(out["data"]) >= wlength:
                        break
                elif info["kind"] == "handshake" and info["pid"] == U.NAK:
                    yield from h.gap()
                    continue
                else:
                    out["stalled"] = info["kind"] == "handshake"
                    return out
            r = yield from h.out_transaction(self.addr, 0, U.DATA1, b"")
            self.log("EP0 STATUS OUT ->", self._describe(r))
            out["status"] = r
            out["completed"] = r.get("kind") == "handshake" and r.get("pid") == U.ACK
            return out
        if wlength:
            return out      # host-to-device data stages are not used
        for attempt in range(3 if retry_status else 1):
            naks = 0
            while True:
                yield from h.token(U.IN, self.addr, 0)
                pkt = yield from h.wait_response(self.window)
                info = U.classify(pkt.data) if pkt is not None else {"kind": "none"}
                if info["kind"] == "handshake" and info["pid"] == U.NAK and naks < 6:
                    naks += 1
                    yield from h.gap()
                    continue
                break
            mode = status_ack if attempt == 0 else "ack"
            self.log("EP0 STATUS IN", mode, "->", self._describe(info))
            out["status"] = info
            if info["kind"] == "data" and len(info["payload"]) == 0:
                self.status_ack_of = bytes(setup8)
                good = yield from self.send_ack(mode)
                self.status_ack_of = None
                if good:
                    out["completed"] = True
                    return out
                yield from h.gap()
                continue
            out["stalled"] = info["kind"] == "handshake" and info["pid"] == U.STALL
            return out
        return out

    def op_sof(self, frame):
        yield from self.host.sof(frame)
        self.log("SOF", frame)

    def _describe(self, info):
        k = info.get("kind")
        if k in ("none", "timeout"):
            return "nothing"
        if k == "handshake":
            return U.PID_NAMES[info["pid"]]
        if k == "data":
            p = bytes(info["payload"])
            return "%s[%d]%s" % (U.PID_NAMES[info["pid"]], len(p), p[:4].hex())
        return "%s" % k

    # -------------------------------------------------------------------------------------- end of session
    def reveal(self):
        """Touch every endpoint once more so that latent toggle / data damage becomes visible; final data check."""
        for key in self.stream_keys("in"):
            self.feed_hold[key] = False
        for key in list(self.consumer_hold):
            self.consumer_hold[key] = False
        yield from self.host.idle(30)
        for key, m in self.models.items():
            if m.kind == "out":
                yield from self.drain(key)
                self.check_delivered(key, m)
                yield from self.op_out(key[0], choice="expected", length=self.rng.randint(1, m.mps))
            else:
                for _ in range(2):
                    yield from self.op_in(key[0], "ack")
                    yield from self.gap()
            yield from self.gap()
        yield from self.host.idle(10)

    # -------------------------------------------------------------------------------------- non-interference replay
    def set_focus(self, key):
        """Record the own transactions of OUT endpoint `key` for replay_focus(); its consumer is kept always ready so
        that the delivered (byte, first, last) sequence cannot depend on anything but the packets it receives."""
        self.focus = key
        self.cfg["consumer"][key[0]] = "always"

    def replay_focus(self):
        """Replay ONLY the focus endpoint's own transactions (same packets, same byte timing, device address 0) on a
        second, fresh, identically configured device and return the (byte, first, last) sequence it delivers."""
        import random as _random
        from rv.core import Result
        key = self.focus
        twin = Session(_random.Random(self.cfg["order_seed"] * 7919 + 13), Result(0), cfg=self.cfg)
        for k in twin.stream_keys("in"):
            twin.feed_hold[k] = True                    # no IN data needed: nobody polls the IN endpoints
        h, n = twin.host, key[0]

        def driver():
            yield from twin.start()
            for step in self.focus_script:
                gaps, lead = step["token"]
                if step["kind"] == "ping":
                    yield from h.send_raw(U.token(U.PING, 0, n), gaps=list(gaps), lead=lead)
                else:
                    yield from h.send_raw(U.token(U.OUT, 0, n), gaps=list(gaps), lead=lead)
                    yield from h.idle(step["idle"])
                    if step["data"] is not None:
                        gaps, lead = step["detail"]
                        yield from h.send_raw(step["data"], gaps=list(gaps), lead=lead)
                yield from h.wait_response(twin.window)
                yield from twin.drain(key)
                yield from twin.gap()
            yield from twin.drain(key)
            yield from h.idle(10)

        twin.b.add_driver(driver())
        twin.b.run()
        self.twin_cycles = twin.b.cycle
        return twin.models[key].framing

    def check_framing_noninterference(self):
        """The focus endpoint's delivered (byte, first, last) sequence must be the same with and without the other
        endpoints' traffic (projection oracle for the stream framing; single-endpoint framing rules are C13's)."""
        res, key = self.res, self.focus
        mixed = list(self.models[key].framing)
        alone = self.replay_focus()
        res.event("out_framing_replays")
        res.event("out_framing_beats_compared", min(len(mixed), len(alone)))
        res.event("out_framing_first_flags", sum(1 for b in mixed if b[1]))
        res.event("out_framing_last_flags", sum(1 for b in mixed if b[2]))
        if mixed == alone:
            return
        i = next((j for j in range(min(len(mixed), len(alone))) if mixed[j] != alone[j]), min(len(mixed), len(alone)))
        if [b[0] for b in mixed] != [b[0] for b in alone]:
            mech = "out_data_depends_on_other_endpoint_traffic"
        else:
            mech = "out_framing_depends_on_other_endpoint_traffic"
        res.violation(mech, "OUT ep=%d (mps %d): delivered (byte,first,last) sequence differs from the replay of its own %d transactions "
                      "alone at beat %d of %d/%d: with other traffic %s, alone %s; ops=%s"
                      % (key[0], self.models[key].mps, len(self.focus_script), i, len(mixed), len(alone),
                         mixed[max(0, i - 2):i + 3], alone[max(0, i - 2):i + 3], self.ops_log[-14:]))

    def finish(self):
        res, b = self.res, self.b
        res.cycles = b.cycle + getattr(self, "twin_cycles", 0)
        if b.hit_max_cycles:
            res.violation("harness_max_cycles", "session did not finish in %d cycles" % b.max_cycles)
        res.desc = {"config": {k: (v if not isinstance(v, dict) else {str(a): c for a, c in v.items()}) for k, v in self.cfg.items()},
                    "ops_first": self.ops_log[:25], "ops_total": len(self.ops_log)}
