"""UTMI receive-side wire driver and packet reconstructor shared by the C01 and C04 checks.

No luna imports.  `RxWire.send()` puts one packet on rx_active/rx_valid/rx_data with an explicit
timing script (lead-in cycles, per-byte gaps, trailing cycles) and drives *garbage* on rx_data in
every cycle in which rx_valid is low (lead, gaps, trail and bus idle), deliberately including
values that look like the next/previous byte or like a valid PID.  `RxWire.sample()` is called from
the check's monitor once per cycle and rebuilds, from the *sampled* signals only, what was on the
wire: a packet is the list of bytes seen with rx_active & rx_valid between a rise and the fall of
rx_active; it ends in the first cycle rx_active is sampled low.  The oracle judges these
reconstructed packets, so it cannot disagree with the stimulus the DUT really saw.

UTMI rules obeyed: rx_valid only while rx_active; rx_active rises >= 1 cycle before the first
rx_valid; >= 1 idle cycle between packets.
"""


class RxPacket:
    __slots__ = ("data", "start", "end", "label", "valid_in_last_active_cycle")

    def __init__(self, start):
        self.data = bytearray()
        self.start = start
        self.end = None
        self.label = None
        self.valid_in_last_active_cycle = False


GAP_PROFILES = ("none", "fixed", "random", "onestall")


class RxWire:
    def __init__(self, bench, utmi, rng):
        self.b = bench
        self.u = utmi
        self.rng = rng
        self.cur = None
        self.packets = 0
        self.illegal = 0          # rx_valid seen without rx_active (harness bug if ever non-zero)
        self.busy = False
        self._label = None
        bench.watch(utmi.rx_active, utmi.rx_valid, utmi.rx_data)

    # ---------------------------------------------------------------- monitor side
    def sample(self, b):
        """Call once per cycle.  Returns the RxPacket that ended in this cycle, or None."""
        u = self.u
        a, v, d = b.get(u.rx_active), b.get(u.rx_valid), b.get(u.rx_data)
        if a:
            if self.cur is None:
                self.cur = RxPacket(b.cycle)
                self.cur.label = self._label
            if v:
                self.cur.data.append(d)
            self.cur.valid_in_last_active_cycle = bool(v)
            return None
        if v:
            self.illegal += 1
        if self.cur is not None:
            p, self.cur = self.cur, None
            p.end = b.cycle
            self.packets += 1
            return p
        return None

    # ---------------------------------------------------------------- driver side
    def _garbage(self, nxt, prev):
        r = self.rng.random()
        if r < 0.35:
            return self.rng.randrange(256)
        if r < 0.6 and nxt is not None:
            return nxt
        if r < 0.75 and prev is not None:
            return prev
        pid = self.rng.randrange(16)
        return pid | ((~pid & 0xF) << 4)          # a well-formed PID byte

    def timing(self, n, profile=None):
        """Draw (profile, lead, gaps, trail) for an n-byte packet."""
        rng = self.rng
        if profile is None:
            profile = rng.choice(GAP_PROFILES)
        if profile == "none":
            gaps = [0] * n
        elif profile == "fixed":
            gaps = [rng.randint(1, 5)] * n
        elif profile == "random":
            gaps = [rng.choice([0, 0, 1, 2, 3, 6]) for _ in range(n)]
        else:
            gaps = [0] * n
            if n:
                gaps[rng.randrange(n)] = rng.randint(5, 20)
        lead = rng.choice([1, 1, 1, 2, 3])
        trail = rng.choice([0, 0, 0, 1, 2, 3, 9])
        return profile, lead, gaps, trail

    def send(self, data, lead=1, gaps=None, trail=0, label=None):
        """One packet.  lead >= 1 cycles of rx_active before the first byte, gaps[i] cycles of
        rx_valid=0 before byte i, trail cycles of rx_active after the last byte.  Takes
        lead + sum(gaps) + len(data) + trail cycles and returns in the first idle cycle."""
        b, u = self.b, self.u
        data = bytes(data)
        gaps = list(gaps or []) + [0] * len(data)
        assert lead >= 1
        self.busy = True
        self._label = label
        b.set(u.rx_active, 1)
        b.set(u.rx_valid, 0)
        for _ in range(lead):
            b.set(u.rx_data, self._garbage(data[0] if data else None, None))
            yield
        for i, byte in enumerate(data):
            for _ in range(gaps[i]):
                b.set(u.rx_valid, 0)
                b.set(u.rx_data, self._garbage(byte, data[i - 1] if i else None))
                yield
            b.set(u.rx_valid, 1)
            b.set(u.rx_data, byte)
            yield
        b.set(u.rx_valid, 0)
        for _ in range(trail):
            b.set(u.rx_data, self._garbage(None, data[-1] if data else None))
            yield
        b.set(u.rx_active, 0)
        b.set(u.rx_data, self._garbage(None, data[-1] if data else None))
        yield
        self.busy = False

    def idle(self, n):
        b, u = self.b, self.u
        for _ in range(n):
            b.set(u.rx_data, self._garbage(None, None))
            yield
