"""Reference knowledge for C57 (no luna imports).

* USB 2.0 chapter 9 descriptor walker and a validator for the descriptor set of a CDC-ACM "serial converter"
  function (USB 2.0 9.6.1-9.6.7, ECN Interface Association Descriptor, CDC 1.2 5.2.3 functional descriptors,
  PSTN 1.2 ACM): the validator checks *meaning* (lengths add up, interfaces / endpoints are what a CDC-ACM host
  driver binds to, identifiers and strings are the ones the device was built with), it does not compare with a
  byte image taken from luna.
* string descriptor encoder (UNICODE UTF-16LE, USB 2.0 9.6.7).
* the CDC class request catalogue (CDC 1.2 table 19 / PSTN 1.2 table 13) used by the workload.
"""

DT_DEVICE, DT_CONFIG, DT_STRING, DT_INTERFACE, DT_ENDPOINT, DT_QUALIFIER, DT_IAD, DT_CS_INTERFACE = 1, 2, 3, 4, 5, 6, 11, 0x24

SET_LINE_CODING = 0x20

# (name, bRequest, direction_in, wLength choices)
CDC_REQUESTS = [
    ("SEND_ENCAPSULATED_COMMAND", 0x00, False, (1, 4, 7, 8, 16)),
    ("GET_ENCAPSULATED_RESPONSE", 0x01, True, (1, 7, 8, 64, 256)),
    ("SET_COMM_FEATURE", 0x02, False, (2,)),
    ("GET_COMM_FEATURE", 0x03, True, (2,)),
    ("CLEAR_COMM_FEATURE", 0x04, False, (0,)),
    ("GET_LINE_CODING", 0x21, True, (7,)),
    ("SET_CONTROL_LINE_STATE", 0x22, False, (0,)),
    ("SEND_BREAK", 0x23, False, (0,)),
]


def string_descriptor(text):
    raw = text.encode("utf-16-le")
    return bytes([len(raw) + 2, DT_STRING]) + raw


def walk(blob):
    """Split a descriptor blob into its descriptors. Returns (list, problem|None)."""
    out, i = [], 0
    blob = bytes(blob)
    while i < len(blob):
        if i + 2 > len(blob):
            return out, "dangling byte at offset %d" % i
        n = blob[i]
        if n < 2:
            return out, "bLength %d at offset %d" % (n, i)
        if i + n > len(blob):
            return out, "descriptor at offset %d (bLength %d) runs past the end (%d)" % (i, n, len(blob))
        out.append(blob[i:i + n])
        i += n
    return out, None


def check_device(dd, *, vid, pid):
    """Returns (problems, info) for an 18-byte device descriptor."""
    p = []
    dd = bytes(dd)
    if len(dd) != 18:
        return ["device descriptor is %d bytes, not 18" % len(dd)], None
    if dd[0] != 18 or dd[1] != DT_DEVICE:
        p.append("bLength/bDescriptorType = %d/%d" % (dd[0], dd[1]))
    bcd = dd[2] | dd[3] << 8
    if bcd < 0x0110 or bcd > 0x0300 or (bcd & 0xF) > 9 or ((bcd >> 4) & 0xF) > 9:
        p.append("bcdUSB = %04x" % bcd)
    if dd[7] not in (8, 16, 32, 64):
        p.append("bMaxPacketSize0 = %d" % dd[7])
    if (dd[8] | dd[9] << 8) != vid:
        p.append("idVendor = %04x, device was built with %04x" % (dd[8] | dd[9] << 8, vid))
    if (dd[10] | dd[11] << 8) != pid:
        p.append("idProduct = %04x, device was built with %04x" % (dd[10] | dd[11] << 8, pid))
    if dd[17] != 1:
        p.append("bNumConfigurations = %d" % dd[17])
    info = {"mps0": dd[7] if dd[7] in (8, 16, 32, 64) else 64, "iManufacturer": dd[14], "iProduct": dd[15], "iSerialNumber": dd[16]}
    return p, info


def check_config(cd, *, mps):
    """Validate a complete configuration descriptor of a CDC-ACM function whose data endpoints were built with
    max packet size `mps`.  Returns (problems, info); info carries what a host driver extracts."""
    p = []
    cd = bytes(cd)
    if len(cd) < 9:
        return ["configuration descriptor is %d bytes" % len(cd)], None
    if cd[0] != 9 or cd[1] != DT_CONFIG:
        p.append("bLength/bDescriptorType = %d/%d" % (cd[0], cd[1]))
    total = cd[2] | cd[3] << 8
    if total != len(cd):
        p.append("wTotalLength = %d but %d bytes are returned" % (total, len(cd)))
    if cd[5] == 0:
        p.append("bConfigurationValue = 0")
    if not cd[7] & 0x80:
        p.append("bmAttributes bit 7 clear")
    if cd[7] & 0x1F:
        p.append("bmAttributes reserved bits set")
    descs, prob = walk(cd)
    if prob:
        p.append(prob)
        return p, None
    ifaces = []          # dicts: number, cls, sub, proto, n_ep, eps[], funcs[]
    iads = []
    for d in descs[1:]:
        t = d[1]
        if t == DT_INTERFACE:
            if len(d) != 9:
                p.append("interface descriptor of %d bytes" % len(d))
                continue
            if d[3] != 0:
                p.append("alternate setting %d" % d[3])
            ifaces.append({"number": d[2], "n_ep": d[4], "cls": d[5], "sub": d[6], "proto": d[7], "eps": [], "funcs": []})
        elif t == DT_ENDPOINT:
            if len(d) != 7:
                p.append("endpoint descriptor of %d bytes" % len(d))
                continue
            if not ifaces:
                p.append("endpoint descriptor before any interface")
                continue
            ifaces[-1]["eps"].append({"addr": d[2], "attr": d[3], "mps": d[4] | d[5] << 8, "interval": d[6]})
        elif t == DT_CS_INTERFACE:
            if not ifaces:
                p.append("class-specific descriptor before any interface")
                continue
            if len(d) < 3:
                p.append("functional descriptor of %d bytes" % len(d))
                continue
            ifaces[-1]["funcs"].append(d)
        elif t == DT_IAD:
            if len(d) != 8:
                p.append("interface association descriptor of %d bytes" % len(d))
                continue
            iads.append({"first": d[2], "count": d[3], "cls": d[4], "sub": d[5], "at": len(ifaces)})
        elif t in (DT_DEVICE, DT_CONFIG, DT_STRING):
            p.append("descriptor type %d inside a configuration" % t)
    if cd[4] != len(ifaces):
        p.append("bNumInterfaces = %d but %d interface descriptors" % (cd[4], len(ifaces)))
    if sorted(i["number"] for i in ifaces) != list(range(len(ifaces))):
        p.append("interface numbers %s" % [i["number"] for i in ifaces])
    addrs = []
    for i in ifaces:
        if i["n_ep"] != len(i["eps"]):
            p.append("interface %d: bNumEndpoints = %d but %d endpoint descriptors" % (i["number"], i["n_ep"], len(i["eps"])))
        for e in i["eps"]:
            if e["addr"] & 0x70 or not e["addr"] & 0x0F:
                p.append("endpoint address %02x" % e["addr"])
            if e["attr"] & 0xC0:
                p.append("endpoint %02x: bmAttributes %02x" % (e["addr"], e["attr"]))
            addrs.append(e["addr"])
    if len(set(addrs)) != len(addrs):
        p.append("endpoint address used twice: %s" % ["%02x" % a for a in addrs])
    comm = [i for i in ifaces if i["cls"] == 0x02]
    data = [i for i in ifaces if i["cls"] == 0x0A]
    if len(comm) != 1 or len(data) != 1:
        p.append("need one communications-class and one data-class interface, got classes %s" % [i["cls"] for i in ifaces])
        return p, None
    comm, data = comm[0], data[0]
    info = {"config_value": cd[5], "comm_interface": comm["number"], "data_interface": data["number"]}
    if comm["sub"] != 0x02:
        p.append("communications interface subclass %02x is not ACM (02)" % comm["sub"])
    # functional descriptors (CDC 1.2 5.2.3): header first; union and call management point at the data interface
    subs = [f[2] for f in comm["funcs"]]
    if not subs or subs[0] != 0x00:
        p.append("communications interface: header functional descriptor is not first (subtypes %s)" % subs)
    for f in comm["funcs"]:
        if f[2] == 0x00:
            if len(f) != 5 or (f[3] | f[4] << 8) < 0x0110:
                p.append("header functional descriptor %s" % f.hex())
        elif f[2] == 0x06:
            if len(f) < 5 or f[3] != comm["number"] or data["number"] not in f[4:]:
                p.append("union functional descriptor %s does not join interface %d to %d" % (f.hex(), comm["number"], data["number"]))
        elif f[2] == 0x01:
            if len(f) != 5 or f[4] != data["number"]:
                p.append("call management functional descriptor %s does not name data interface %d" % (f.hex(), data["number"]))
    if 0x06 not in subs:
        p.append("no union functional descriptor")
    if data["funcs"]:
        p.append("functional descriptors on the data interface")
    for ia in iads:
        if ia["count"] != 2 or ia["first"] != min(comm["number"], data["number"]) or ia["cls"] != 0x02:
            p.append("interface association %s" % ia)
        if ia["at"] != 0:
            p.append("interface association descriptor does not precede its interfaces")
    # endpoints
    if len(comm["eps"]) != 1:
        p.append("communications interface has %d endpoints (one interrupt IN notification endpoint expected)" % len(comm["eps"]))
    else:
        e = comm["eps"][0]
        if e["attr"] & 3 != 3 or not e["addr"] & 0x80:
            p.append("notification endpoint %02x attributes %02x is not interrupt IN" % (e["addr"], e["attr"]))
        if not 1 <= e["mps"] <= 1024 or not 1 <= e["interval"] <= 255:
            p.append("notification endpoint wMaxPacketSize %d bInterval %d" % (e["mps"], e["interval"]))
        info["ep_notify"] = e["addr"] & 0x0F
        info["notify_mps"] = e["mps"]
        info["notify_interval"] = e["interval"]
    ins = [e for e in data["eps"] if e["addr"] & 0x80]
    outs = [e for e in data["eps"] if not e["addr"] & 0x80]
    if len(ins) != 1 or len(outs) != 1:
        p.append("data interface endpoints %s (one bulk IN and one bulk OUT expected)" % ["%02x" % e["addr"] for e in data["eps"]])
    else:
        for e in (ins[0], outs[0]):
            if e["attr"] & 3 != 2:
                p.append("data endpoint %02x attributes %02x is not bulk" % (e["addr"], e["attr"]))
            if e["mps"] != mps:
                p.append("data endpoint %02x wMaxPacketSize %d, device was built with %d" % (e["addr"], e["mps"], mps))
        info["ep_in"] = ins[0]["addr"] & 0x0F
        info["ep_out"] = outs[0]["addr"] & 0x0F
    return p, info
