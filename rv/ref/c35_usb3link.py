"""Reference USB 3.2 link-layer codec used by the C35 / C36 / C40 checks.  No luna imports.

Written from USB 3.2 r1.0 chapter 7 (and table 6-2 for the K-symbols):
  * a symbol is (value 0..255, is_control); a 32-bit stream word carries four symbols, symbol 0 (first on the wire) in
    bits [7:0], its control flag in ctrl[0];
  * link command  = SLC SLC SLC EPF, then two identical 16-bit link command words
                    word[3:0] sub-type, [6:4] reserved, [10:7] class+type, [15:11] CRC-5 over bits [10:0];
  * header packet = SHP SHP SHP EPF, DW0, DW1, DW2, DW3 = CRC-16 (over DW0..DW2) | link control word << 16
                    link control word [2:0] header sequence number, [5:3] reserved, [8:6] hub depth, [9] delayed,
                    [10] deferred, [15:11] CRC-5 over bits [10:0];
  * data packet payload = SDP SDP SDP EPF, payload bytes, CRC-32 (little-endian), END END END EPF
                    (or EDB EDB EDB EPF when the payload is aborted); logical idle (D0.0) fills the last word.
CRC-5:  x^5+x^2+1, preset ones, LSB first, remainder complemented, most significant remainder bit first on the wire.
CRC-16: x^16+x^12+x^3+x+1, same conventions.  CRC-32: IEEE 802.3 (reflected 0x04C11DB7, preset ones, complemented).
"""
import struct

# K-symbols (value = (y << 5) | x for Kx.y)
SKP, SDP, EDB, SUB, COM, RSD = 0x3C, 0x5C, 0x7C, 0x9C, 0xBC, 0xDC
SHP, END, SLC, EPF = 0xFB, 0xFD, 0xFE, 0xF7

HDR_TYPE_LMP, HDR_TYPE_TP, HDR_TYPE_DATA, HDR_TYPE_ITP = 0x00, 0x04, 0x08, 0x0C


def K(v):
    return (v, 1)


def D(v):
    return (v & 0xFF, 0)


def pack_word(syms):
    """four (value, ctrl) symbols -> (data32, ctrl4)"""
    assert len(syms) == 4
    data = 0
    ctrl = 0
    for i, (v, c) in enumerate(syms):
        data |= (v & 0xFF) << (8 * i)
        ctrl |= (c & 1) << i
    return data, ctrl


def unpack_word(data, ctrl):
    return [((data >> (8 * i)) & 0xFF, (ctrl >> i) & 1) for i in range(4)]


def pack_symbols(syms, pad=(0, 0)):
    syms = list(syms)
    while len(syms) % 4:
        syms.append(pad)
    return [pack_word(syms[i:i + 4]) for i in range(0, len(syms), 4)]


LCSTART = pack_word([K(SLC), K(SLC), K(SLC), K(EPF)])
HPSTART = pack_word([K(SHP), K(SHP), K(SHP), K(EPF)])
DPPSTART = pack_word([K(SDP), K(SDP), K(SDP), K(EPF)])
DPPEND = pack_word([K(END), K(END), K(END), K(EPF)])
DPPABORT = pack_word([K(EDB), K(EDB), K(EDB), K(EPF)])


# ------------------------------------------------------------------------------------------ CRCs (bit serial)

def _crc_msb_first_out(value_bits, poly, width):
    """generic: feed bits (iterable of 0/1, in wire order); returns the complemented remainder as int whose bit
    (width-1) is the x^(width-1) coefficient."""
    mask = (1 << width) - 1
    reg = mask
    for bit in value_bits:
        top = (reg >> (width - 1)) & 1
        reg = (reg << 1) & mask
        if bit ^ top:
            reg ^= poly
    return reg ^ mask


def _wire_field(rem, width):
    """place a remainder so that its most significant bit is sent first (= lowest bit position of the field)."""
    out = 0
    for i in range(width):
        if (rem >> (width - 1 - i)) & 1:
            out |= 1 << i
    return out


def crc5(value11):
    """CRC-5 field (as it sits in bits [15:11] of a link command word / link control word) of the 11 low bits."""
    bits = [(value11 >> i) & 1 for i in range(11)]
    return _wire_field(_crc_msb_first_out(bits, 0x05, 5), 5)


def crc16(dw0, dw1, dw2):
    """CRC-16 field of a header packet (bits [15:0] of DW3)."""
    bits = []
    for w in (dw0, dw1, dw2):
        bits += [(w >> i) & 1 for i in range(32)]
    return _wire_field(_crc_msb_first_out(bits, 0x100B, 16), 16)


def crc32(payload):
    reg = 0xFFFFFFFF
    for byte in payload:
        reg ^= byte
        for _ in range(8):
            reg = (reg >> 1) ^ 0xEDB88320 if reg & 1 else reg >> 1
    return reg ^ 0xFFFFFFFF


def crc32_steer(prefix, target):
    """four bytes X such that crc32(prefix + X) == target (CRC is affine in X: solve the 32x32 system over GF(2))."""
    base = crc32(prefix + bytes(4))
    cols = []
    for i in range(32):
        x = (1 << i).to_bytes(4, "little")
        cols.append(crc32(prefix + x) ^ base)
    want = target ^ base
    # gaussian elimination on augmented rows: for each output bit r: sum_i cols[i].bit(r) * x_i = want.bit(r)
    rows = []
    for r in range(32):
        coeff = 0
        for i in range(32):
            if (cols[i] >> r) & 1:
                coeff |= 1 << i
        rows.append([coeff, (want >> r) & 1])
    x = 0
    piv_rows = []
    used = [False] * 32
    for col in range(32):
        p = None
        for r in range(32):
            if not used[r] and (rows[r][0] >> col) & 1:
                p = r
                break
        if p is None:
            return None
        used[p] = True
        for r in range(32):
            if r != p and (rows[r][0] >> col) & 1:
                rows[r][0] ^= rows[p][0]
                rows[r][1] ^= rows[p][1]
        piv_rows.append((col, p))
    for col, p in piv_rows:
        if rows[p][1]:
            x |= 1 << col
    return x.to_bytes(4, "little")


# ------------------------------------------------------------------------------------------ link commands

def link_command_word(command, subtype, reserved=0):
    low = (subtype & 0xF) | ((reserved & 7) << 4) | ((command & 0xF) << 7)
    return low | (crc5(low) << 11)


def link_command_words(command, subtype, reserved=0):
    w = link_command_word(command, subtype, reserved)
    return [LCSTART, (w | (w << 16), 0)]


# ------------------------------------------------------------------------------------------ header packets

def link_control_word(seq, reserved=0, hub_depth=0, delayed=0, deferred=0):
    low = (seq & 7) | ((reserved & 7) << 3) | ((hub_depth & 7) << 6) | ((delayed & 1) << 9) | ((deferred & 1) << 10)
    return low | (crc5(low) << 11)


def header_dw3(dw0, dw1, dw2, seq, reserved=0, hub_depth=0, delayed=0, deferred=0):
    return crc16(dw0, dw1, dw2) | (link_control_word(seq, reserved, hub_depth, delayed, deferred) << 16)


def header_words(dw0, dw1, dw2, seq, reserved=0, hub_depth=0, delayed=0, deferred=0):
    return [HPSTART, (dw0, 0), (dw1, 0), (dw2, 0), (header_dw3(dw0, dw1, dw2, seq, reserved, hub_depth, delayed, deferred), 0)]


def dpp_symbols(payload, crc=None, end=True):
    if crc is None:
        crc = crc32(payload)
    syms = [K(SDP), K(SDP), K(SDP), K(EPF)] + [D(b) for b in payload] + [D(b) for b in struct.pack("<I", crc)]
    if end:
        syms += [K(END), K(END), K(END), K(EPF)]
    return syms


def dpp_words(payload, crc=None):
    return pack_symbols(dpp_symbols(payload, crc))


def selftest():
    # recorded packets (bus captures quoted in the repository's tests and in the USB-IF compliance traces)
    assert crc32(b"123456789") == 0xCBF43926
    assert crc32(b"") == 0
    assert crc32(struct.pack("<I", 0x02000112)) == 0x34984B13
    assert crc16(0x00000280, 0x00010004, 0x00000000) == 0x1845
    for dw3 in (0x10001845, 0xE801A822, 0xD005A242, 0xA8023E0F):
        lcw = dw3 >> 16
        assert crc5(lcw & 0x7FF) == lcw >> 11, hex(dw3)
    assert header_dw3(0x32000008, 0x00010000, 0x08000000, 1) == 0xE801A822
    assert header_dw3(0x34000008, 0x00020000, 0x08000000, 5) == 0xD005A242
    assert header_dw3(0x00000008, 0x00088000, 0x08000000, 2) == 0xA8023E0F
    assert dpp_words(bytes([0xFF])) == [(0xF75C5C5C, 0xF), (0x000000FF, 0), (0xFDFDFDFF, 0xE), (0x000000F7, 0x1)]
    assert dpp_words(bytes([0xAA, 0xBB]))[1:3] == [(0x2C98BBAA, 0), (0xFDFD4982, 0xC)]
    assert dpp_words(struct.pack("<II", 0x001E0500, 0))[3] == (0x0EC69325, 0)
    assert HPSTART == (0xF7FBFBFB, 0xF) and DPPSTART == (0xF75C5C5C, 0xF)
    x = crc32_steer(b"abc", 0xF7FDFDFD)
    assert x is not None and crc32(b"abc" + x) == 0xF7FDFDFD
    try:
        from rv.ref import crc as R
        for v in (0, 1, 0x2A5, 0x7FF, 0x400):
            assert R.usb3_crc5(v, 11) == crc5(v)
        assert R.usb3_crc16(struct.pack("<III", 1, 2, 3)) == crc16(1, 2, 3)
        assert R.usb3_crc32(b"xyz") == crc32(b"xyz")
    except ImportError:
        pass
    return True
