"""Reference model for C11: what a USB host must end up with when it reads a bulk/interrupt IN endpoint.

Written from the property statement and USB 2.0 chapter 8.6 (data toggle synchronisation and retry); no luna code.

The harness reports, in order of occurrence,
  * every byte the endpoint accepted on its input stream (`on_input`), with the cycle and the `last` marker,
  * the cycles in which `flush` was sampled high (`on_flush`),
  * every data packet the endpoint produced in answer to an IN token (`on_packet`) together with what happened to it:
        host_ok    the host received the packet intact (False: "host saw garbage", it ignores the packet and sends no ACK)
        dev_acked  an ACK reached the device (False with host_ok=True is the lost-ACK case: the host has advanced
                   its toggle, the device has not),
  * a foreign ACK on the bus between two packets (`on_foreign_ack`).

Host behaviour (USB 2.0 8.6.4): a packet whose PID equals the expected toggle is accepted and the toggle flips; a packet
with the other PID is a retransmission of something already accepted: discarded (and ACKed).
"""


class InOracle:
    def __init__(self, mps, report, bin_, name=""):
        self.mps = mps
        self.report = report          # report(mechanism, detail)
        self.bin = bin_
        self.name = name
        self.inp = []                 # accepted input bytes
        self.in_cycle = []
        self.lasts = set()            # offsets (number of bytes up to and including a byte marked last)
        self.last_list = []           # the same, in increasing order
        self._last_idx = 0
        self.flush = []               # [start, end] closed intervals of cycles with flush high
        self.host_len = 0             # bytes accepted by the host
        self.host_tog = 0             # toggle the host expects (0 = DATA0)
        self.accepted = []            # (offset, length) of packets the host accepted
        self.prev = None              # last packet produced: dict(pid, payload, dev_acked, host_ok, foreign_ack)
        self.dev_len = 0              # bytes the device has seen acknowledged
        self.dead = False             # after a content violation the model has lost sync: stop judging content
        self.n_packets = 0
        self.any_flush = False
        self.discards = 0
        self.end_flag_cycle = -1
        self.end_flag_suspect = False    # harness: a `last` byte was accepted and dropped in the final cycle of a discard episode
        self.no_boundary_carry = False   # set by a discard: the first packet afterwards starts a fresh transfer

    # ------------------------------------------------------------------ inputs
    def on_input(self, byte, last, cycle):
        self.inp.append(byte)
        self.in_cycle.append(cycle)
        if last:
            self.lasts.add(len(self.inp))
            self.last_list.append(len(self.inp))

    def on_flush(self, cycle):
        self.any_flush = True
        if self.flush and self.flush[-1][1] == cycle - 1:
            self.flush[-1][1] = cycle
        else:
            self.flush.append([cycle, cycle])

    def on_discard(self):
        """`discard` was sampled high (first cycle of an episode).  Documented meaning: what is buffered is thrown away and nothing
        is buffered or sent while it is high.  Decidable only while no packet is outstanding un-ACKed (otherwise device and host
        cannot agree on the toggle whatever the device does): in that case the model stops judging content."""
        self.discards += 1
        self.end_flag_suspect = False
        p = self.prev
        if p is not None and not p["dev_acked"]:
            self.dead = True
            return False
        keep = self.dev_len
        del self.inp[keep:]
        del self.in_cycle[keep:]
        self.lasts = {L for L in self.lasts if L <= keep}
        self.last_list = [L for L in self.last_list if L <= keep]
        self._last_idx = min(self._last_idx, len(self.last_list))
        self.no_boundary_carry = True
        if p is not None:
            self.prev = dict(p, payload=b"", end_off=keep)      # an owed ZLP is discarded with the rest
        return True

    def has_room(self):
        """True when, by the double-buffer contract (one packet may be stored while another is sent), the endpoint must be able
        to take another input byte: at most one complete packet (or owed ZLP) is un-acknowledged.  Ignores flush cuts: use only
        when flush was never asserted, or when nothing at all is pending."""
        n = len(self.inp)
        pos = self.dev_len
        count = 1 if self._zlp_owed_to_device() else 0
        p = self.prev
        if p is not None and not p["dev_acked"] and len(p["payload"]) == 0:
            count += 1                      # a ZLP that was sent but not acknowledged still occupies the transmit slot
        li = 0
        ll = self.last_list
        while count <= 1:
            nxt = pos + self.mps
            while li < len(ll) and ll[li] <= pos:
                li += 1
            if li < len(ll) and ll[li] < nxt:
                nxt = ll[li]
            if nxt > n:
                break
            count += 1
            pos = nxt
        return count <= 1

    def on_foreign_ack(self):
        if self.prev is not None:
            self.prev["foreign_ack"] = True

    def _flushed_between(self, c0, c1):
        for a, z in self.flush:
            if a <= c1 and z >= c0:
                return True
        return False

    # ------------------------------------------------------------------ device-side knowledge
    def device_has_nothing(self):
        """True when every accepted input byte has been acknowledged to the device and no ZLP is owed."""
        if self.dev_len < len(self.inp):
            return False
        return not self._zlp_owed_to_device()

    def _zlp_owed_to_device(self):
        p = self.prev
        return bool(p and p["dev_acked"] and len(p["payload"]) == self.mps and p["end_off"] in self.lasts)

    def host_missing(self):
        return len(self.inp) - self.host_len

    def data_due_cycle(self):
        """Cycle since which the endpoint has owed the host a data packet (a complete packet's worth of accepted and not yet
        acknowledged input, a retransmission, or a ZLP); -1 = owed since the previous transaction; None = nothing owed
        (a partial packet may be waiting for more input)."""
        if self.dead:
            return None
        p = self.prev
        if p is not None and not p["dev_acked"]:
            return -1
        if self._zlp_owed_to_device():
            return -1
        start = self.dev_len
        c = None
        if len(self.inp) - start >= self.mps:
            c = self.in_cycle[start + self.mps - 1]
        for L in self.last_list[self._last_idx:]:
            if L > start:
                cl = self.in_cycle[L - 1]
                c = cl if c is None else min(c, cl)
                break
            self._last_idx += 1
        return c

    def on_nak(self, due, token_cycle, margin, cycle):
        """The endpoint answered an IN token with NAK; `due` = data_due_cycle() taken just before the token."""
        if self.dead or due is None:
            return False
        if token_cycle - due < margin:
            return False
        p = self.prev
        since = "the previous transaction" if due < 0 else "cycle %d" % due
        if p is not None and not p["dev_acked"] and p.get("foreign_ack"):
            self.report("unacked_packet_dropped_after_ack_to_other_device",
                        "%s cyc=%d: packet DATA%d %s was never ACKed by the host, an ACK for another device passed on the bus, and the "
                        "endpoint now answers NAK instead of repeating it" % (self.name, cycle, p["pid"], p["payload"].hex()))
            self.dead = True
            return True
        self.report("nak_although_packet_ready", "%s cyc=%d IN token NAKed although the endpoint has owed a packet since %s (input bytes "
                    "accepted %d, acknowledged %d, mps %d)" % (self.name, cycle, since, len(self.inp), self.dev_len, self.mps))
        return True

    # ------------------------------------------------------------------ packets
    def on_packet(self, pid, payload, host_ok, dev_acked, cycle):
        payload = bytes(payload)
        n = len(payload)
        mps = self.mps
        self.n_packets += 1
        who = self.name
        ctx = "%s packet#%d pid=DATA%d len=%d host_off=%d" % (who, self.n_packets, pid, n, self.host_len)
        if n > mps:
            self.report("packet_exceeds_max_packet_size", "%s > mps=%d" % (ctx, mps))
        prev = self.prev
        retry = False
        if prev is not None and self.dead:
            retry = not prev["dev_acked"]
        elif prev is not None:
            if not prev["dev_acked"]:
                retry = True
                self.bin("retry")
                same = (pid == prev["pid"] and payload == prev["payload"])
                if not same:
                    if prev.get("foreign_ack"):
                        self.report("unacked_packet_dropped_after_ack_to_other_device",
                                    "%s: previous packet DATA%d %s was never ACKed by the host, an ACK for another device "
                                    "passed on the bus, and the endpoint now sends DATA%d %s instead of repeating it"
                                    % (ctx, prev["pid"], prev["payload"].hex(), pid, payload.hex()))
                        self.dead = True
                    elif pid != prev["pid"]:
                        self.report("retry_pid_changed", "%s: previous un-ACKed packet was DATA%d %s, retry is DATA%d %s"
                                    % (ctx, prev["pid"], prev["payload"].hex(), pid, payload.hex()))
                    else:
                        self.report("retry_payload_changed", "%s: previous un-ACKed packet was %s, retry is %s"
                                    % (ctx, prev["payload"].hex(), payload.hex()))
                        self.dead = True
            else:
                if pid == prev["pid"]:
                    self.report("pid_not_toggled_after_ack", "%s: previous packet DATA%d was ACKed, the next one uses the same PID" % (ctx, pid))
        rec = {"pid": pid, "payload": payload, "dev_acked": dev_acked, "host_ok": host_ok, "foreign_ack": False,
               "end_off": prev["end_off"] if (retry and prev) else None}
        if not retry:
            rec["end_off"] = self.dev_len + n
        if dev_acked:
            self.dev_len = rec["end_off"]
        self.prev = rec
        if not host_ok:
            self.bin("host_saw_garbage")
            return
        if pid != self.host_tog:
            self.bin("host_discards_duplicate")
            return
        # ---- the host accepts this packet
        self.host_tog ^= 1
        off = self.host_len
        if self.dead:
            self.host_len += n
            self.accepted.append((off, n))
            return
        exp = bytes(self.inp[off:off + n])
        if payload != exp:
            last_acc = self.accepted[-1] if self.accepted else None
            mech = "payload_corrupted_or_reordered"
            if n and last_acc and bytes(self.inp[last_acc[0]:last_acc[0] + last_acc[1]]) == payload:
                mech = "packet_delivered_twice"
            else:
                hay = bytes(self.inp[off + 1:])
                if n and hay.find(payload) >= 0:
                    mech = "bytes_skipped"
                elif len(exp) < n and payload[:len(exp)] == exp:
                    mech = "bytes_sent_that_were_never_accepted"
            self.report(mech, "%s host accepted %s, the input stream at offset %d is %s" % (ctx, payload.hex(), off, exp.hex()))
            self.dead = True
            self.host_len += n
            self.accepted.append((off, n))
            return
        end = off + n
        pa = self.accepted[-1] if self.accepted else None
        prev_full_last = bool(pa and pa[1] == mps and (pa[0] + pa[1]) in self.lasts)
        if self.no_boundary_carry:
            self.no_boundary_carry = False
            prev_full_last = False
            self.bin("delivery_after_discard")
        if n == 0:
            if prev_full_last:
                self.bin("zlp_after_full_packet")
            elif self.end_flag_suspect:
                self.report("discarded_last_byte_leaves_end_flag", "%s: zero-length packet after a discard whose final cycle accepted (and dropped) a byte "
                            "marked `last`: the end-of-transfer flag of the discarded byte survived the discard" % ctx)
            else:
                self.report("spurious_zlp", "%s: zero-length packet, but the previous accepted packet %r did not end a transfer on a full packet" % (ctx, pa))
        else:
            if n and self.end_flag_suspect and off < len(self.inp) and self.in_cycle[off] > self.end_flag_cycle:
                self.end_flag_suspect = False
            if prev_full_last:
                self.report("missing_zlp_after_full_packet", "%s: transfer ended at offset %d with a max-size packet and the next packet carries data" % (ctx, off))
            inside = [L for L in self.lasts if off < L < end]
            if inside:
                self.report("transfer_boundary_inside_packet", "%s: input `last` at offset(s) %r lies inside packet [%d,%d)" % (ctx, inside[:4], off, end))
            if n < mps:
                if end in self.lasts:
                    self.bin("short_packet_ends_transfer")
                elif self._flushed_between(self.in_cycle[off], cycle + 1):
                    self.bin("flushed_partial_packet")
                else:
                    self.report("short_packet_inside_transfer", "%s: short packet [%d,%d) without `last` at its end and without flush "
                                "between cycle %d and %d" % (ctx, off, end, self.in_cycle[off], cycle))
            else:
                self.bin("full_packet")
                if end in self.lasts:
                    self.bin("full_packet_ends_transfer")
        self.host_len = end
        self.accepted.append((off, n))

    # ------------------------------------------------------------------ end of session
    def finish(self, drained):
        """drained: the harness held flush and polled until the endpoint NAKed repeatedly."""
        if self.dead:
            return
        if drained:
            if self.host_len != len(self.inp):
                self.report("stream_not_fully_delivered", "%s host accepted %d of %d input bytes although flush was held and the host "
                            "polled until the endpoint only NAKed" % (self.name, self.host_len, len(self.inp)))
            else:
                pa = self.accepted[-1] if self.accepted else None
                if pa and pa[1] == self.mps and (pa[0] + pa[1]) in self.lasts and not self.no_boundary_carry:
                    self.report("missing_zlp_at_end_of_transfer", "%s last transfer ended on a max-size packet at offset %d and no ZLP followed"
                                % (self.name, pa[0] + pa[1]))
