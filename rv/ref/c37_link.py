"""USB3 link-layer reference for the header-packet receiver checks (C37, C38).  No luna imports.

Contents
  * codec written from USB 3.2 r1.0 chapter 7: header packet layout (DW0..DW2, DW3 = CRC-16 | link control
    word with CRC-5), HPSTART / LCSTART framing words, link command word (class/type/sub-type, CRC-5, replica);
  * `RxModel`: the receiver the property statements describe (expected sequence number, ignore-until-retry,
    commit queue of accepted headers, LGOOD / LBAD / LCRD obligations, credit conservation);
  * `Engine`: cycle-synchronous harness around a device-under-test object that has the port names of
    `HeaderPacketReceiver` (the object itself is created by the check): drivers for the sink (word queue
    with bubbles and filler), the two ready lines and the strobes; monitors that decode the link commands
    on `source`, the headers offered on `queue`, and deframe what was really put on `sink`; the partner
    model (credit respecting, retransmits after LBAD) that produces the hostile traffic.

All judging is done by `Engine` from sampled port values only.
"""
from collections import deque

from rv.ref.crc import usb3_crc5, usb3_crc16

# framing words, little endian (first symbol in bits 7:0), all four symbols are K symbols (ctrl = 0b1111)
HPSTART = 0xF7FBFBFB    # SHP SHP SHP EPF   K27.7 K27.7 K27.7 K23.7
LCSTART = 0xF7FEFEFE    # SLC SLC SLC EPF   K30.7 x3, K23.7
DPSTART = 0xF75C5C5C    # SDP SDP SDP EPF   K28.2 x3, K23.7
DPEND = 0xF7FDFDFD      # END END END EPF   K29.7 x3, K23.7
TS_COM = 0xBCBCBCBC     # COM x4 (start of a training set), K28.5

LGOOD, LCRD, LRTY, LBAD, LGO_U, LAU, LXU, LPMA, LUP = range(9)
LDN = 0xB
CMD_NAMES = {LGOOD: "LGOOD", LCRD: "LCRD", LRTY: "LRTY", LBAD: "LBAD", LGO_U: "LGO_U", LAU: "LAU", LXU: "LXU",
             LPMA: "LPMA", LUP: "LUP", LDN: "LDN"}


# ------------------------------------------------------------------------------------------- codec

def link_control_word(seq, rsvd=0, hub_depth=0, delayed=0, deferred=0):
    v = (seq & 7) | ((rsvd & 7) << 3) | ((hub_depth & 7) << 6) | ((delayed & 1) << 9) | ((deferred & 1) << 10)
    return v | (usb3_crc5(v, 11) << 11)


def header_crc16(dw0, dw1, dw2):
    raw = b"".join(w.to_bytes(4, "little") for w in (dw0, dw1, dw2))
    return usb3_crc16(raw)


def make_header(dw0, dw1, dw2, seq, rsvd=0, hub_depth=0, delayed=0, deferred=0):
    """-> the four 32-bit words of a header packet (without HPSTART)."""
    return (dw0, dw1, dw2, header_crc16(dw0, dw1, dw2) | (link_control_word(seq, rsvd, hub_depth, delayed, deferred) << 16))


def parse_header(words):
    dw0, dw1, dw2, dw3 = words
    lcw = dw3 >> 16
    return {
        "seq": lcw & 7,
        "crc16_ok": (dw3 & 0xFFFF) == header_crc16(dw0, dw1, dw2),
        "crc5_ok": (lcw >> 11) == usb3_crc5(lcw & 0x7FF, 11),
    }


def link_command_word(cmd, sub):
    v = (sub & 0xF) | ((cmd & 0xF) << 7)
    v |= usb3_crc5(v, 11) << 11
    return v | (v << 16)


def decode_link_command(word, ctrl):
    """-> (cmd, sub) or None when the word is not a well-formed link command word."""
    lo, hi = word & 0xFFFF, word >> 16
    if ctrl != 0 or lo != hi or (lo >> 4) & 7:
        return None
    if (lo >> 11) != usb3_crc5(lo & 0x7FF, 11):
        return None
    return (lo >> 7) & 0xF, lo & 0xF


def selftest():
    # the recorded Link Management packet used by the repository's tests and the recorded LGOOD/LCRD words
    assert make_header(0x00000280, 0x00010004, 0, 0) == (0x00000280, 0x00010004, 0, 0x10001845)
    p = parse_header((0x00000280, 0x00010004, 0, 0x10001845))
    assert p["crc16_ok"] and p["crc5_ok"] and p["seq"] == 0
    assert not parse_header((0x00000280, 0x00010004, 0xFFFFFFFF, 0x10001845))["crc16_ok"]
    for cmd in (LGOOD, LCRD, LBAD, LRTY, LUP):
        for sub in range(8):
            assert decode_link_command(link_command_word(cmd, sub), 0) == (cmd, sub)
    assert decode_link_command(link_command_word(LGOOD, 3) ^ 1, 0) is None
    return True


# ------------------------------------------------------------------------------------------- model

class RxModel:
    """What the header receiver must do, per the property statements."""

    def __init__(self):
        self.expected = 0           # Rx header sequence number
        self.fresh()

    def fresh(self):
        self.fifo = deque()         # accepted, not yet consumed: (words, cycle_end)
        self.lgood_due = deque()    # sequence numbers that must be acknowledged, in order
        self.lbad_due = 0
        self.ignoring = False
        self.lcrd_sent = 0
        self.pops = 0
        self.accepted = 0


# ------------------------------------------------------------------------------------------- engine

class Engine:
    # bounded progress is counted in cycles in which the PHY was ready (source.ready high): a stalled PHY is not the
    # receiver's fault.  Unstalled, luna needs 15 cycles for the advertisement and 3-4 per further command.
    ADVERT_BOUND = 120          # ready-cycles from enable until LGOOD + 4 LCRD must be complete
    QUIESCE_BOUND = 300         # ready-cycles until every obligation is met once the traffic has stopped

    def __init__(self, dut, b, rng, res, prop, nbuf=4):
        self.dut, self.b, self.rng, self.res, self.prop = dut, b, rng, res, prop
        self.nbuf = nbuf                  # number of header buffers the DUT was built with (= credits it may have outstanding)
        d = dut
        self.sig_sink = (d.sink.valid, d.sink.payload, d.sink.ctrl)
        self.sig_src = (d.source.valid, d.source.ready, d.source.payload, d.source.ctrl)
        self.sig_q = (d.queue.valid, d.queue.ready)
        self.sig_hdr = d.queue.header          # sampled as one 128-bit value: dw0 | dw1 | dw2 | crc16, link control word
        self.sig_ctl = (d.enable, d.usb_reset, d.retry_received)
        self.strobe_sigs = {"retry_received": d.retry_received, "retry_required": d.retry_required,
                            "keepalive_required": d.keepalive_required, "reject_power_state": d.reject_power_state,
                            "accept_power_state": d.accept_power_state,
                            "acknowledge_power_state": d.acknowledge_power_state}
        b.watch(*self.sig_sink, *self.sig_src, *self.sig_q, self.sig_hdr, *self.sig_ctl)
        self._last_set = {}

        self.model = RxModel()
        self.dead = False
        self.dead_tainted = False
        self.ack_overflow_taint = False
        self.sticky_taint = None
        self.taint = None                 # None | "midcmd" | "race"   (C38)

        # ---- driver state
        self.txq = deque()                # (data, ctrl, valid)
        self.filler_invalid_p = 0.0
        self.filler_garbage = False
        self.enable_level = 0
        self.reset_level = 0
        self.strobes = {}                 # name -> remaining cycles (1 = strobe next cycle)
        self.strobed_since_down = set()   # request inputs pulsed since the link last went down (or since power-on)
        self.src_profile = ("always",)
        self.q_profile = ("always",)
        self.src_hold_until = None        # ready forced low before that cycle and high in that cycle
        self.q_pulse_at = None
        self._src_run = 0
        self._q_run = 0
        self.allow_b2b = False            # may a header start in the cycle right after the previous header's last word?
        self._drv_hdr_left = 0
        self._drv_hdr_just_ended = False
        self.src_stall_word1 = 0          # directed: stall the command word for that many cycles (next command)
        self._word1_stall_left = 0

        # ---- monitor state
        self.phase = "down0"              # "down0" before the first enable, then "up" / "down"
        self.prev_enable = 0
        self.cycle0 = b.cycle             # history below is indexed by (cycle - cycle0)
        self.armed = False                # monitors run only while armed (set after the hard reset of the session)
        self.src_valid_hist = [0]
        self.src_state = "idle"           # "idle" | "cmd" (LCSTART transferred, command word outstanding)
        self.src_pend = None              # (data, ctrl) held under back-pressure
        self.src_word_first_valid = None
        self.cmd_first_valid = None
        self.cmd_pops_snapshot = 0
        self.src_idle_run = 0
        self.commands = []                # completed commands (cmd, sub, first_valid, done)
        self.inbox = deque()              # for the partner
        self.in_header = None             # words collected so far
        self.last_hdr_end = -100
        self.hdr_ends = []                # (cycle_end, verdict)
        self.first_trigger = None
        self.last_trigger = None
        self.reset_seen = False
        self.enable_rise = None
        self.advert = None                # {"lgood": None|n, "allowed": set, "budget": ready-cycles left}
        self.exp_lo = self.exp_hi = 0
        self.race = False
        self.epoch = 0
        self.epoch_info = []

        # ---- partner state
        self.p_credits = 0
        self.p_unacked = deque()          # headers (word tuples) sent and not acknowledged
        self.p_next_seq = 0
        self.p_lbads = 0
        self.p_tag = rng.randrange(1 << 16)

    # ================================================================ helpers
    def fail(self, symptom, detail):
        if self.dead:
            return
        self.dead = True
        mech = symptom
        if symptom in ("source_changed_under_backpressure", "source_word_not_lcstart", "malformed_link_command",
                       "unexpected_link_command"):
            pass                              # malformed output can never be explained by a lost / inconsistent restart
        elif self.ack_overflow_taint and symptom in ("lgood_missing", "lgood_without_accepted_header", "lgood_wrong_sequence",
                                                     "lbad_overtakes_lgood", "advert_lgood_wrong_sequence"):
            mech = "ack_counter_overflow_buffer_count_below_4"
        elif self.taint == "midcmd":
            mech = "restart_lost_trigger_during_link_command"
        elif self.taint == "race":
            mech = "restart_inconsistent_unacked_or_racing_header"
        if mech != symptom:
            detail = "symptom=%s %s" % (symptom, detail)
        ctx = " | cyc=%d epoch=%d expected_seq=%d ignoring=%d fifo=%d lgood_due=%s lcrd_sent=%d pops=%d last_cmds=%s epochs=%s" % (
            self.b.cycle, self.epoch, self.model.expected, self.model.ignoring, len(self.model.fifo),
            list(self.model.lgood_due), self.model.lcrd_sent, self.model.pops,
            [(CMD_NAMES.get(c, c), s, f, d) for c, s, f, d in self.commands[-6:]], self.epoch_info[-2:])
        self.res.violation(mech, detail + ctx)
        self.dead_tainted = mech != symptom
        if not self.dead_tainted:
            self.b.stop()

    # ================================================================ driver side
    def _ready(self, profile, run_attr):
        rng = self.rng
        kind = profile[0]
        if kind == "always":
            return 1
        if kind == "never":
            return 0
        if kind == "random":
            return 1 if rng.random() < profile[1] else 0
        if kind == "bursty":                      # ("bursty", maxstall, maxrun)
            run = getattr(self, run_attr)
            if run == 0:
                if rng.random() < 0.5:
                    run = rng.randint(1, profile[2])
                else:
                    run = -rng.randint(1, profile[1])
            val = 1 if run > 0 else 0
            run += -1 if run > 0 else 1
            setattr(self, run_attr, run)
            return val
        raise ValueError(profile)

    def _set(self, sig, value):
        key = id(sig)
        if self._last_set.get(key) != value:
            self._last_set[key] = value
            self.b.set(sig, value)

    def drive(self):
        """Set every input for the next cycle."""
        b, d, rng = self.b, self.dut, self.rng
        bset = self._set
        nxt = b.cycle + 1
        # sink
        if self.txq and self._drv_hdr_just_ended and not self.allow_b2b and self.txq[0] == (HPSTART, 0xF, 1):
            data, ctrl, valid = 0, 0, 1           # keep one non-framing word between two headers
        elif self.txq:
            data, ctrl, valid = self.txq.popleft()
        elif rng.random() < self.filler_invalid_p:
            valid = 0
            data, ctrl = (rng.getrandbits(32), rng.getrandbits(4)) if self.filler_garbage else (0, 0)
        else:
            data, ctrl, valid = 0, 0, 1           # logical idle
        self._drv_hdr_just_ended = False
        if valid:
            if self._drv_hdr_left:
                self._drv_hdr_left -= 1
                self._drv_hdr_just_ended = self._drv_hdr_left == 0
            elif data == HPSTART and ctrl == 0xF:
                self._drv_hdr_left = 4
        bset(d.sink.valid, valid)
        bset(d.sink.payload, data)
        bset(d.sink.ctrl, ctrl)
        # source.ready
        r = self._ready(self.src_profile, "_src_run")
        if self.src_state == "cmd" and self.src_stall_word1 and not self._word1_stall_left:
            self._word1_stall_left = self.src_stall_word1
            self.src_stall_word1 = 0
        if self._word1_stall_left:
            if self.src_state == "cmd":
                self._word1_stall_left -= 1
                r = 0
            else:
                self._word1_stall_left = 0
        if self.src_hold_until is not None:
            if nxt < self.src_hold_until:
                r = 0
            else:
                r = 1
                self.src_hold_until = None
        bset(d.source.ready, r)
        # queue.ready
        q = self._ready(self.q_profile, "_q_run")
        if self.q_pulse_at is not None and nxt >= self.q_pulse_at:
            q = 1
            self.q_pulse_at = None
        bset(d.queue.ready, q)
        # levels and strobes
        bset(d.enable, self.enable_level)
        bset(d.usb_reset, self.reset_level)
        for name, sig in self.strobe_sigs.items():
            n = self.strobes.get(name, 0)
            bset(sig, 1 if n == 1 else 0)
            if n == 1:
                self.strobed_since_down.add(name)
            if n:
                self.strobes[name] = n - 1
        self.res.sig(valid, data, ctrl, r, q, self.enable_level, self.reset_level)

    def strobe(self, name, delay=0):
        """pulse the named input for one cycle, `delay` cycles from the next cycle"""
        self.strobes[name] = delay + 1

    def push_words(self, words, ctrl=0, bubbles=0.0, garbage=True):
        rng = self.rng
        for w in words:
            while bubbles and rng.random() < bubbles:
                self.txq.append((rng.getrandbits(32) if garbage else 0, rng.getrandbits(4) if garbage else 0, 0))
            self.txq.append((w, ctrl, 1))

    def push_header(self, words, bubbles=0.0):
        rng = self.rng
        self.txq.append((HPSTART, 0xF, 1))
        if bubbles:
            self.res.bin("bubble_in_header")
        self.push_words(words, 0, bubbles)

    # ================================================================ monitor side
    def monitor(self, b):
        if self.dead or not self.armed:
            self.src_valid_hist.append(0)
            return
        g = b.get
        cyc = b.cycle
        res = self.res
        res.event("cycles_monitored")
        en, rst, retry = (g(s) for s in self.sig_ctl)
        sv, sd, sc = (g(s) for s in self.sig_sink)
        ov, orr, od, oc = (g(s) for s in self.sig_src)
        qv, qr = (g(s) for s in self.sig_q)
        m = self.model

        # ---------------------------------------------------------- link state (enable / reset)
        if self.phase == "up":
            if not en or rst:
                self._trigger(cyc, en, rst)
        elif self.phase == "down":
            if rst:
                self.reset_seen = True
                self.last_trigger = cyc
            if self.prev_enable and not en:
                self.last_trigger = cyc
        # (re-)entry: rising edge of enable with reset low while the link is considered down
        if self.phase in ("down", "down0") and en and not rst and not self.prev_enable:
            self._reentry(cyc)
        self.prev_enable = en

        judged = self.phase == "up"

        # ---------------------------------------------------------- queue (protocol layer side)
        if qv:
            hw = self._queue_words(g)
            if judged:
                if not m.fifo:
                    sym = "stale_header_offered_after_reentry" if (self.epoch > 1 and m.accepted == 0) else "queue_valid_without_accepted_header"
                    return self.fail(sym, "queue.valid with header %s but no accepted header is outstanding" % (_hx(hw),))
                if hw != m.fifo[0][0]:
                    return self.fail("queue_header_wrong", "offered %s expected %s (oldest unconsumed accepted header)" % (_hx(hw), _hx(m.fifo[0][0])))
                res.event("queue_valid_cycles_compared")
                if qr:
                    words, c_end = m.fifo.popleft()
                    m.pops += 1
                    res.event("headers_consumed")
                    if cyc in self.accept_window:
                        res.bin("pop_in_accept_window")
                    self.last_pop = cyc
        elif judged and qr:
            res.bin("queue_ready_without_valid")

        # ---------------------------------------------------------- source (link commands)
        self.src_valid_hist.append(ov)
        if self.src_pend is not None:
            if not ov or (od, oc) != self.src_pend:
                return self.fail("source_changed_under_backpressure", "source valid=%d data=%#x ctrl=%#x after stalled %#x/%#x" % (ov, od, oc, self.src_pend[0], self.src_pend[1]))
        if ov:
            self.src_idle_run = 0
            if self.src_word_first_valid is None:
                self.src_word_first_valid = cyc
                if self.src_state == "idle":
                    self.cmd_first_valid = cyc
                    self.cmd_pops_snapshot = m.pops
            if orr:
                self.src_pend = None
                stalled = cyc - self.src_word_first_valid
                self.src_word_first_valid = None
                if self.src_state == "idle":
                    if od != LCSTART or oc != 0xF:
                        return self.fail("source_word_not_lcstart", "data=%#x ctrl=%#x" % (od, oc))
                    self.src_state = "cmd"
                else:
                    self.src_state = "idle"
                    dec = decode_link_command(od, oc)
                    if dec is None:
                        return self.fail("malformed_link_command", "data=%#x ctrl=%#x" % (od, oc))
                    if stalled:
                        res.bin("command_word_stalled")
                    self._command(dec[0], dec[1], self.cmd_first_valid, cyc)
                    if self.dead:
                        return
            else:
                self.src_pend = (od, oc)
                res.bin("source_backpressure")
        else:
            self.src_idle_run += 1

        # ---------------------------------------------------------- sink (what the partner really sent)
        if sv:
            if self.in_header is None:
                if sd == HPSTART and sc == 0xF:
                    self.in_header = []
                    if cyc == self.last_hdr_end + 1:
                        res.bin("header_back_to_back")
            else:
                self.in_header.append(sd)
                if len(self.in_header) == 4:
                    words = tuple(self.in_header)
                    self.in_header = None
                    self._header(words, cyc)
        if retry:
            res.event("retry_received_strobes")
            if judged:
                if m.ignoring:
                    res.bin("retry_clears_ignore")
                m.ignoring = False

        # ---------------------------------------------------------- deadlines
        self.last_src_ready = orr
        if judged and self.advert is not None:
            a = self.advert
            a["budget"] -= orr
            if a["budget"] < 0:
                return self.fail("advert_incomplete", "after enable at %d: advert LGOOD=%s LCRDs=%d within %d cycles with source.ready high" % (
                    self.enable_rise, a["lgood"], m.lcrd_sent, self.ADVERT_BOUND))

    accept_window = ()
    last_pop = -100
    last_src_ready = 0

    def _queue_words(self, g):
        v = g(self.sig_hdr)
        return (v & 0xFFFFFFFF, (v >> 32) & 0xFFFFFFFF, (v >> 64) & 0xFFFFFFFF, (v >> 96) & 0xFFFFFFFF)

    # ---- header seen on the sink
    def _header(self, words, cyc):
        m, res = self.model, self.res
        p = parse_header(words)
        self.last_hdr_end = cyc
        good = p["crc16_ok"] and p["crc5_ok"]
        res.event("headers_on_sink")
        if self.phase != "up":
            # link is down: not judged as traffic; it makes the next re-entry a "race" epoch
            self.race = True
            if good and p["seq"] == (self.exp_hi & 7):
                self.exp_hi += 1
            res.bin("header_while_link_down")
            self.hdr_ends.append((cyc, "down"))
            return
        if m.ignoring:
            kind = "ignored_good" if good else "ignored_bad"
            if good and p["seq"] != m.expected:
                kind = "ignored_wrong_seq"
        elif not good:
            kind = "bad_crc16" if p["crc5_ok"] else ("bad_crc5" if p["crc16_ok"] else "bad_both")
            m.lbad_due += 1
            m.ignoring = True
        elif p["seq"] != m.expected:
            kind = "wrong_seq"
        else:
            kind = "accepted"
            m.fifo.append((words, cyc))
            m.lgood_due.append(p["seq"])
            m.expected = (m.expected + 1) & 7
            m.accepted += 1
            if m.expected == 0:
                res.bin("seq_wrap")
            if len(m.fifo) == self.nbuf:
                res.bin("buffers_full")
            if len(m.fifo) > self.nbuf:
                # stimulus error of the harness (partner must respect credits) -- never judged
                res.unjudged += 1
            if len(m.lgood_due) >= 2:
                res.bin("ack_backlog_ge2")
            if self.nbuf < 4 and len(m.lgood_due) >= (1 << self.nbuf.bit_length()):
                # more unacknowledged accepted headers than a counter declared as range(buffer_count + 1) can hold
                self.ack_overflow_taint = True
                res.bin("ack_backlog_exceeds_small_buffer_counter")
            self.accept_window = range(cyc + 1, cyc + 5)
        res.bin("hdr_" + kind)
        res.event("headers_judged")
        self.hdr_ends.append((cyc, kind))

    # ---- link command completed on source
    def _command(self, cmd, sub, first_valid, done):
        m, res = self.model, self.res
        self.commands.append((cmd, sub, first_valid, done))
        res.event("link_commands_decoded")
        if self.phase != "up":
            res.bin("command_while_link_down")
            return
        if first_valid < self.enable_rise:
            # was already on the wire when the link came up: belongs to the previous life
            res.bin("command_in_flight_at_enable")
            res.unjudged += 1
            return
        self.inbox.append((cmd, sub, done))
        a = self.advert
        if cmd == LGOOD:
            res.event("lgood_seen")
            if a is not None and a["lgood"] is None:
                if sub not in a["allowed"]:
                    return self.fail("advert_lgood_wrong_sequence", "first LGOOD after enable carries %d, last received sequence number is %s" % (sub, sorted(a["allowed"])))
                a["lgood"] = sub
                m.expected = (sub + 1) & 7
                self.p_next_seq = m.expected
                res.event("advert_lgood_checked")
                return
            if not m.lgood_due:
                return self.fail("lgood_without_accepted_header", "LGOOD %d but every accepted header is already acknowledged" % sub)
            want = m.lgood_due.popleft()
            if sub != want:
                return self.fail("lgood_wrong_sequence", "LGOOD %d, next unacknowledged accepted header has %d" % (sub, want))
            if done in self.accept_window:
                res.bin("lgood_done_in_accept_window")
            res.event("lgood_checked")
        elif cmd == LCRD:
            res.event("lcrd_seen")
            if a is not None and a["lgood"] is None:
                return self.fail("lcrd_before_advert_lgood", "LCRD %d before the sequence number advertisement" % sub)
            if sub != (m.lcrd_sent % self.nbuf):
                return self.fail("lcrd_wrong_index", "LCRD index %d, expected %d (A-B-C-D order over %d buffers, %d sent since enable)" % (sub, m.lcrd_sent % self.nbuf, self.nbuf, m.lcrd_sent))
            if m.lcrd_sent + 1 > self.nbuf + self.cmd_pops_snapshot:
                return self.fail("lcrd_without_free_buffer", "LCRD #%d since enable started at cycle %d when only %d headers had been consumed: buffered+advertised > %d" % (
                    m.lcrd_sent + 1, first_valid, self.cmd_pops_snapshot, self.nbuf))
            m.lcrd_sent += 1
            if m.lcrd_sent > self.nbuf:
                res.event("lcrd_for_freed_buffer_checked")
                if sub == 0:
                    res.bin("lcrd_wrap")
                if done - self.last_pop <= 1:
                    res.bin("lcrd_done_at_pop")
            if a is not None and m.lcrd_sent == self.nbuf:
                res.event("advert_complete")
                self.advert = None
        elif cmd == LBAD:
            res.event("lbad_seen")
            if a is not None and a["lgood"] is None:
                return self.fail("lbad_before_advert_lgood", "LBAD before the sequence number advertisement")
            if m.lbad_due == 0:
                sym = "stale_lbad_after_reentry" if (self.epoch > 1 and not any(k.startswith("bad") for c, k in self.hdr_ends if c >= self.enable_rise)) else "lbad_without_bad_header"
                return self.fail(sym, "LBAD although no corrupted header is outstanding")
            if m.lgood_due:
                return self.fail("lbad_overtakes_lgood", "LBAD sent while LGOOD for %s still outstanding" % list(m.lgood_due))
            m.lbad_due -= 1
            res.event("lbad_checked")
        elif cmd in (LRTY, LUP, LDN, LXU):
            res.event({LRTY: "lrty_seen", LXU: "lxu_seen"}.get(cmd, "keepalive_seen"))
            need = {LRTY: "retry_required", LXU: "reject_power_state"}.get(cmd, "keepalive_required")
            if a is not None and a["lgood"] is None:
                # something overtakes the sequence number advertisement: only a request made in this link life may do that
                if need not in self.strobed_since_down:
                    return self.fail("stale_command_before_advert_lgood", "%s sent before the advertisement LGOOD although %s was not pulsed since the link went down" % (CMD_NAMES[cmd], need))
                res.bin("fresh_request_before_advert")
            else:
                res.event("request_commands_after_advert_checked")
        else:
            return self.fail("unexpected_link_command", "%s %d" % (CMD_NAMES.get(cmd, cmd), sub))

    # ---- link goes down / reset arrives
    def _trigger(self, cyc, en, rst):
        m, res = self.model, self.res
        self.phase = "down"
        self.strobed_since_down = set()
        self.first_trigger = self.last_trigger = cyc
        self.reset_seen = bool(rst)
        recent_acc = [c for c, k in self.hdr_ends if c >= cyc - 6 and k == "accepted"]
        recent_any = [c for c, k in self.hdr_ends if c >= cyc - 6]
        # "race": a header is arriving / has just arrived, or an accepted header is still waiting for its LGOOD
        unacked = max(len(recent_acc), len(m.lgood_due))
        self.race = bool(recent_any) or self.in_header is not None or bool(m.lgood_due)
        if m.lgood_due and not recent_any:
            res.bin("crash_with_unacked_header_receiver_idle")
        self.exp_hi = m.expected if m.expected >= unacked else m.expected + 8
        self.exp_lo = self.exp_hi - unacked
        self.advert = None
        self.crash_state = {
            "buffered": len(m.fifo), "ignoring": m.ignoring, "lbad_due": m.lbad_due, "acks_due": len(m.lgood_due),
            "credits_due": self.nbuf + m.pops - m.lcrd_sent, "seq": m.expected, "lcrd_index": m.lcrd_sent % self.nbuf,
        }
        res.event("link_down_events")

    def _reentry(self, cyc):
        m, res = self.model, self.res
        first = self.phase == "down0"
        self.phase = "up"
        self.epoch += 1
        self.enable_rise = cyc
        hist = self.src_valid_hist
        self.taint = None
        info = {"enable_rise": cyc}
        if not first:
            L = self.last_trigger
            i = L - self.cycle0
            mid = bool(hist[i]) or bool(hist[i + 1] if i + 1 < len(hist) else 0)
            cur = "midcmd" if mid else ("race" if self.race else None)
            if cur is None and self.reset_seen:
                self.sticky_taint = None          # a USB reset seen while idle re-synchronises everything
            elif cur == "midcmd" or (cur == "race" and self.sticky_taint is None):
                self.sticky_taint = cur
            self.taint = cur or self.sticky_taint
            info.update(first_trigger=self.first_trigger, last_trigger=L, reset=self.reset_seen, taint=self.taint,
                        state=self.crash_state)
            self._crash_bins(mid)
        if first:
            allowed = {7}
        elif self.reset_seen:
            allowed = {7}
            if self.race and any(c > self.last_trigger - 8 for c, k in self.hdr_ends):
                allowed = set(range(8))          # header after the reset: not generated on purpose; do not judge the number
        else:
            allowed = {(x - 1) & 7 for x in range(self.exp_lo, self.exp_hi + 1)}
        if self.reset_seen or first:
            m.expected = 0
        m.fresh()
        self.advert = {"lgood": None, "allowed": allowed, "budget": self.ADVERT_BOUND}
        self.accept_window = ()
        self.inbox.clear()
        self.p_credits = 0
        self.p_unacked.clear()
        self.p_lbads = 0
        self.epoch_info.append(info)
        res.event("link_up_events")
        if not first:
            res.event("reentries_judged_clean" if self.taint is None else "reentries_tainted_" + self.taint)

    def _crash_bins(self, mid):
        """coverage of the crash point: what was on `source` at the last trigger cycle"""
        res = self.res
        L = self.last_trigger
        hist = self.src_valid_hist
        cmd = None
        for c in reversed(self.commands):
            if c[2] - 1 <= L <= c[3]:
                cmd = c
                break
            if c[3] < L - 64:
                break
        if cmd is None:
            res.bin("crash_mid_unfinished" if mid else "crash_source_idle")
        else:
            name = CMD_NAMES.get(cmd[0], "?")
            if cmd[0] == LDN:
                name = "LUP"
            res.bin("crash_during_" + name)
            if L == cmd[2] - 1:
                res.bin("crash_cycle_before_valid")
            elif L == cmd[3]:
                res.bin("crash_on_last_word")
            elif L == cmd[2]:
                res.bin("crash_on_first_valid")
        st = self.crash_state
        if st["buffered"]:
            res.bin("crash_with_buffered_headers")
        if st["ignoring"]:
            res.bin("crash_while_ignoring")
        if st["lbad_due"]:
            res.bin("crash_with_lbad_pending")
        if st["acks_due"]:
            res.bin("crash_with_acks_pending")
        if st["credits_due"]:
            res.bin("crash_with_credits_pending")
        if st["seq"]:
            res.bin("crash_with_nonzero_sequence")
        if st["lcrd_index"]:
            res.bin("crash_with_credit_index_nonzero")
        if self.race:
            res.bin("crash_header_racing")
        res.bin("crash_with_reset" if self.reset_seen else "crash_disable_only")

    # ================================================================ scenario helpers (generators)
    def tick(self, n=1):
        for _ in range(n):
            yield
            self._partner_rx()

    def _partner_rx(self):
        while self.inbox:
            cmd, sub, done = self.inbox.popleft()
            if cmd == LGOOD:
                if self.p_unacked and ((self.p_unacked[0][3] >> 16) & 7) == sub:
                    self.p_unacked.popleft()
            elif cmd == LCRD:
                self.p_credits += 1
            elif cmd == LBAD:
                self.p_lbads += 1

    def wait_sink_idle(self, extra=0):
        while self.txq and not self.dead:
            yield from self.tick()
        # the word popped last is sampled one cycle later
        yield from self.tick(1 + extra)

    def wait_advert(self):
        """wait until the advertisement of the current epoch is complete (the monitor enforces the deadline)"""
        n = 0
        while self.advert is not None and not self.dead and n < 40 * self.ADVERT_BOUND:
            yield from self.tick()
            n += 1

    def quiesce(self, bound=None, need_empty=True):
        """all obligations met? (LGOODs, LBADs, LCRDs for consumed headers, headers offered)"""
        m = self.model
        bound = bound or self.QUIESCE_BOUND
        n = total = 0
        while not self.dead:
            done = (not m.lgood_due and not m.lbad_due and m.lcrd_sent == self.nbuf + m.pops and self.advert is None
                    and (not m.fifo or not need_empty) and not self.txq and self.src_idle_run >= 4)
            if done:
                return
            if n >= bound or total >= 40 * bound:
                break
            yield from self.tick()
            n += 1 if self.last_src_ready else 0
            total += 1
        if self.dead:
            return
        if m.lgood_due:
            self.fail("lgood_missing", "accepted header(s) %s not acknowledged within %d ready-cycles" % (list(m.lgood_due), bound))
        elif m.lbad_due:
            self.fail("lbad_missing", "corrupted header not answered with LBAD within %d cycles" % bound)
        elif m.fifo and need_empty:
            self.fail("header_not_offered", "accepted header %s not offered on queue within %d cycles" % (_hx(m.fifo[0][0]), bound))
        elif m.lcrd_sent != self.nbuf + m.pops:
            self.fail("lcrd_missing", "%d LCRD since enable, %d + %d consumed headers expected within %d cycles" % (m.lcrd_sent, self.nbuf, m.pops, bound))
        elif self.advert is not None:
            self.fail("advert_incomplete", "advertisement not complete")

    # ---- partner actions
    def new_header_words(self, seq):
        rng = self.rng
        self.p_tag = (self.p_tag + 1) & 0xFFFF
        t = self.p_tag
        style = rng.random()
        if style < 0.7:
            dw0, dw1, dw2 = (t << 16) | rng.getrandbits(16), rng.getrandbits(32), (rng.getrandbits(16) << 16) | t
        elif style < 0.8:
            dw0, dw1, dw2 = t, 0, 0
        elif style < 0.9:
            dw0, dw1, dw2 = 0xFFFFFFFF, 0xFFFF0000 | t, 0xFFFFFFFF
        else:
            dw0, dw1, dw2 = HPSTART, t, LCSTART         # payload that looks like framing (data symbols, ctrl = 0)
        if rng.random() < 0.3:
            kw = dict(rsvd=rng.choice([0, 0, rng.getrandbits(3)]), hub_depth=rng.getrandbits(3),
                      delayed=rng.getrandbits(1), deferred=rng.getrandbits(1))
        else:
            kw = {}
        return make_header(dw0, dw1, dw2, seq, **kw)

    def corrupt(self, words):
        """-> (words', operator name); the result always has at least one invalid CRC"""
        rng = self.rng
        for _ in range(20):
            w = list(words)
            op = rng.choice(["bit_dw012", "bit_crc16", "bit_lcw", "bit_crc5", "bit_seq", "word_ones", "word_zero",
                             "two_bits", "swap_words", "seq_swap_keep_crc5"])
            if op == "bit_dw012":
                w[rng.randrange(3)] ^= 1 << rng.randrange(32)
            elif op == "bit_crc16":
                w[3] ^= 1 << rng.randrange(16)
            elif op == "bit_lcw":
                w[3] ^= 1 << rng.randrange(16, 27)
            elif op == "bit_seq":
                w[3] ^= 1 << rng.randrange(16, 19)
            elif op == "bit_crc5":
                w[3] ^= 1 << rng.randrange(27, 32)
            elif op == "word_ones":
                w[rng.randrange(4)] = 0xFFFFFFFF
            elif op == "word_zero":
                w[rng.randrange(4)] = 0
            elif op == "two_bits":
                w[rng.randrange(4)] ^= 1 << rng.randrange(32)
                w[rng.randrange(4)] ^= 1 << rng.randrange(32)
            elif op == "swap_words":
                i, j = rng.sample(range(3), 2)
                w[i], w[j] = w[j], w[i]
            elif op == "seq_swap_keep_crc5":
                # replace the link control word by the one of another header (valid CRC-5, wrong CRC-16 pairing is still
                # valid...) and break the CRC-16 by one bit: CRC-5 good, CRC-16 bad
                w[3] = (w[3] & 0xFFFF) ^ (1 << rng.randrange(16)) | (link_control_word(rng.getrandbits(3)) << 16)
            p = parse_header(w)
            if not (p["crc16_ok"] and p["crc5_ok"]):
                return tuple(w), op
        w = list(words)
        w[0] ^= 1
        return tuple(w), "bit_dw012"

    def can_send_new(self):
        return self.p_credits > 0 and len(self.p_unacked) < 4

    def send_new_header(self, corrupt_p=0.0, bubbles=0.0):
        """partner sends the next header in sequence (consumes a credit); maybe damaged on the wire"""
        rng = self.rng
        words = self.new_header_words(self.p_next_seq)
        self.p_next_seq = (self.p_next_seq + 1) & 7
        self.p_credits -= 1
        self.p_unacked.append(words)
        self._emit(words, corrupt_p, bubbles)

    def _emit(self, words, corrupt_p, bubbles):
        rng = self.rng
        if rng.random() < corrupt_p:
            bad, op = self.corrupt(words)
            self.res.bin("corrupt_" + op)
            self.push_header(bad, bubbles)
        else:
            self.push_header(words, bubbles)

    def send_decoy_wrong_seq(self, bubbles=0.0):
        """well-formed header whose sequence number is not the expected one (never tracked, never credited)"""
        rng, m = self.rng, self.model
        # the receiver's expected number is one of: the unacknowledged headers' numbers, or the partner's next one
        exp_then = {(w[3] >> 16) & 7 for w in self.p_unacked} | {self.p_next_seq}
        choices = [(m.expected - 1) & 7, (m.expected + 1) & 7, (m.expected + 4) & 7, rng.randrange(8)]
        seq = rng.choice(choices)
        if seq in exp_then:
            return False
        if seq == (m.expected - 1) & 7:
            self.res.bin("decoy_repeat_previous")
        self.push_header(self.new_header_words(seq), bubbles)
        return True

    def send_noise(self):
        rng, m = self.rng, self.model
        kind = rng.choice(["idle", "lc", "dp", "decoy_ctrl", "decoy_invalid", "near_miss", "bubbles"])
        if kind == "idle":
            self.txq.extend([(0, 0, 1)] * rng.randint(1, 6))
        elif kind == "lc":
            self.txq.append((LCSTART, 0xF, 1))
            self.txq.append((link_command_word(rng.choice([LGOOD, LCRD, LUP, LBAD, LRTY]), rng.randrange(8)), 0, 1))
        elif kind == "dp":
            self.txq.append((DPSTART, 0xF, 1))
            for _ in range(rng.randint(1, 8)):
                self.txq.append((rng.getrandbits(32), 0, 1))
            self.txq.append((DPEND, 0xF, 1))
        elif kind in ("decoy_ctrl", "decoy_invalid", "near_miss"):
            # something that is NOT header framing, followed by words that would be an acceptable header
            hdr = self.new_header_words(m.expected)
            if kind == "decoy_ctrl":
                self.txq.append((HPSTART, rng.choice([0, 0b0111, 0b1110, 0b1011, 0b0001]), 1))
            elif kind == "decoy_invalid":
                self.txq.append((HPSTART, 0xF, 0))
            else:
                self.txq.append((HPSTART ^ (1 << rng.randrange(32)), 0xF, 1))
            for w in hdr:
                self.txq.append((w, 0, 1))
            self.res.bin("decoy_framing")
        else:
            for _ in range(rng.randint(1, 5)):
                self.txq.append((rng.getrandbits(32), rng.getrandbits(4), 0))

    def do_retry(self, corrupt_p=0.0, bubbles=0.0, react=None):
        """partner answers one LBAD: LRTY (seen by the receiver as the `retry_received` strobe), then every
        unacknowledged header again, oldest first"""
        rng = self.rng
        self.p_lbads -= 1
        yield from self.tick(rng.randint(0, 12) if react is None else react)
        tight = rng.random() < 0.4
        yield from self.wait_sink_idle(extra=0 if tight else 3)
        if tight and self.b.cycle - self.last_hdr_end <= 2:
            self.res.bin("lrty_right_after_header")
        self._partner_rx()
        if self.p_unacked and rng.random() < 0.15:
            # faulty partner: re-sends without LRTY first; the receiver must keep ignoring (good, in-sequence headers)
            for words in list(self.p_unacked)[:rng.randint(1, 2)]:
                self.push_header(words, bubbles)
            self.res.bin("resend_without_lrty")
            yield from self.wait_sink_idle(extra=rng.randint(3, 10))
        # LRTY itself on the wire, then the strobe from the command detector
        self.txq.append((LCSTART, 0xF, 1))
        self.txq.append((link_command_word(LRTY, 0), 0, 1))
        # the command word is sampled two cycles from now; luna's link command detector reports it 1-2 cycles later
        self.strobe("retry_received", delay=rng.randint(2, 4))
        yield from self.tick(rng.randint(0, 1) if tight else rng.randint(2, 4))
        resent = list(self.p_unacked)
        if resent:
            self.res.bin("retry_resends_%d" % min(len(resent), 3))
        for words in resent:
            self._emit(words, corrupt_p, bubbles)
            if rng.random() < 0.3:
                self.txq.extend([(0, 0, 1)] * rng.randint(1, 4))
        self.res.event("partner_retries")


def _hx(words):
    return "[" + " ".join("%08x" % w for w in words) + "]"
