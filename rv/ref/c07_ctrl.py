"""Reference model of USB 2.0 control transfers on endpoint 0 (device side) and a scripted hostile host.

No luna imports.  Used by rv/checks/c07.py and rv/checks/c08.py.

The oracle is `RefControl`: a stage tracker written from USB 2.0 sections 8.5.3 (control transfers), 8.6.1
(toggle after SETUP), 9.4 (standard requests).  It is fed with what the *host* put on the wire and what the
device answered, and states for every device answer on endpoint 0 what a conforming device does:

  * SETUP (token + DATA0 with 8 bytes, valid CRC) is always ACKed and starts a new transfer, whatever came before;
  * data stage of a device-to-host request with wLength > 0: every IN token is answered with
    DATA<toggle>(ref[offset : offset+64]) - toggle starts at DATA1, offset/toggle advance only when the host's
    ACK for *that* packet was on the wire (directly after the packet);
  * the first OUT token ends an IN data stage (a host may end it early); the status stage is then an OUT
    DATA1 zero-length packet which is ACKed;
  * a request without data stage has an IN status stage: the IN token is answered with a zero-length DATA1,
    repeated until the host's ACK is seen;
  * a non-empty DATA packet is sent on endpoint 0 only in the data stage of a device-to-host request with
    wLength > 0 (judged for *every* IN token, also in sequences no real host produces);
  * packets for other endpoints / other devices change nothing of the above.

`Session` is the host: it performs wire-level operations through rv.usb2host.UTMIHost, feeds the tracker,
and offers transfer scripts (legal transfers with retries / un-ACKed packets / early status / interleaved
foreign traffic) and junk scripts (abandoned transfers, wrong-direction tokens, PING, repeated SETUP).
"""
from rv.ref import usb2 as U

EP0_MPS = 64
RESP_WINDOW = 48          # cycles the host waits for the device to start answering (fs12 tables: 2..7 + margin)

SUPPORTED_NODATA = ("set_address", "set_config", "clear_halt", "vendor_nodata")
JUDGED_STATUS_IN = SUPPORTED_NODATA + ("vendor_out",)
VENDOR_REQUEST = 0x51
SUPPORTED_IN = ("get_descriptor", "get_status", "get_config")


# ------------------------------------------------------------------------------------------ descriptors

def make_descriptors(rng):
    """Random raw descriptor set {(type, index): bytes}.  Lengths are never a multiple of 8, i.e. of any EP0 packet size (the
    zero-length-packet terminator rule is property C09's subject)."""
    def blob(t, n):
        return bytes([n & 0xFF, t] + [rng.randrange(256) for _ in range(n - 2)])

    def length(lo, hi):
        while True:
            n = rng.randint(lo, hi)
            if n % 8:
                return n
    def config(n, value):
        raw = bytearray(blob(2, n))
        raw[5] = value                      # bConfigurationValue
        return bytes(raw)
    d = {(1, 0): blob(1, 18)[:17] + bytes([1])}          # bNumConfigurations = 1
    d[(2, 0)] = config(rng.choice([length(9, 60), length(65, 127), length(129, 250)]), 1)
    if rng.random() < 0.3:
        d[(2, 1)] = config(length(9, 140), 1)            # other-speed style duplicate
    d[(3, 0)] = blob(3, 4)
    for i in range(1, rng.randint(2, 4)):
        d[(3, i)] = blob(3, 2 * rng.randint(2, 50) if rng.random() < 0.8 else 66 + 2 * rng.randint(0, 20))
        if len(d[(3, i)]) % 8 == 0:
            d[(3, i)] = blob(3, len(d[(3, i)]) + 2)
    for k in list(d):
        if len(d[k]) % 8 == 0:
            d[k] = d[k] + b"\x00\x00"
    return d


def setup_fields(s8):
    return {"bm": s8[0], "req": s8[1], "value": s8[2] | (s8[3] << 8), "index": s8[4] | (s8[5] << 8),
            "length": s8[6] | (s8[7] << 8)}


def GET_DESCRIPTOR(t, i, n, lang=0):
    return U.setup_bytes(0x80, 6, (t << 8) | i, lang, n)


def GET_STATUS(recipient=0, index=0):
    return U.setup_bytes(0x80 | recipient, 0, 0, index, 2)


def GET_CONFIGURATION():
    return U.setup_bytes(0x80, 8, 0, 0, 1)


def SET_ADDRESS(v):
    return U.setup_bytes(0x00, 5, v, 0, 0)


def SET_CONFIGURATION(v):
    return U.setup_bytes(0x00, 9, v, 0, 0)


def VENDOR(direction_in, value, wlength, recipient=0):
    return U.setup_bytes((0x80 if direction_in else 0) | 0x40 | recipient, VENDOR_REQUEST, value, 0, wlength)


def CLEAR_HALT(ep_addr):
    return U.setup_bytes(0x02, 1, 0, ep_addr, 0)


class Xfer:
    """Reference state of the control transfer started by the most recent SETUP."""

    def __init__(self, s8, descs, cfg, cycle):
        f = setup_fields(s8)
        self.s8 = bytes(s8)
        self.bm, self.req, self.value, self.index, self.wlen = f["bm"], f["req"], f["value"], f["index"], f["length"]
        self.dir_in = bool(self.bm & 0x80)
        self.t_setup = cycle
        self.kind, self.ref = "unsupported", None
        std = (self.bm & 0x60) == 0
        if std and self.bm == 0x80 and self.req == 6 and self.wlen > 0 and (self.value >> 8, self.value & 0xFF) in descs:
            self.kind, self.ref = "get_descriptor", descs[(self.value >> 8, self.value & 0xFF)][:self.wlen]
        elif std and self.bm in (0x80, 0x81, 0x82) and self.req == 0 and self.wlen == 2 and self.value == 0:
            self.kind = "get_status"
        elif std and self.bm == 0x80 and self.req == 8 and self.wlen == 1 and self.value == 0:
            self.kind, self.ref = "get_config", bytes([cfg])
        elif std and self.bm == 0x00 and self.req == 5 and self.wlen == 0:
            self.kind = "set_address"
        elif std and self.bm == 0x00 and self.req == 9 and self.wlen == 0:
            self.kind = "set_config"
        elif std and self.bm == 0x02 and self.req == 1 and self.wlen == 0 and self.value == 0:
            self.kind = "clear_halt"
        if (self.bm & 0x60) == 0x40 and self.req == VENDOR_REQUEST:
            # the vendor request of the check's own handler: defined for every direction / wLength combination
            if self.wlen == 0:
                self.kind = "vendor_nodata"
            elif self.dir_in:
                self.kind, self.ref = "vendor_in", bytes((self.value + i) & 0xFF for i in range(min(self.wlen, 4)))
            else:
                self.kind = "vendor_out"
        if self.dir_in and self.wlen:
            self.stage = "data_in"
        elif self.wlen:
            self.stage = "data_out"
        else:
            self.stage = "status_in"
        self.supported = self.kind != "unsupported"
        self.offset = 0
        self.toggle = 1
        self.legal = True          # only steps a real host produces so far
        self.unacked = False       # device data packet on ep0 sent and not ACKed by the host
        self.done = False          # status stage handshake completed
        self.stalled = False
        self.foreign_setup = False         # a SETUP for another endpoint of this device came during this transfer
        self.foreign_ack_unacked = False   # another transaction's ACK was on the wire while `unacked`
        self.foreign_ack_nodata = False    # ... while the status stage of a no-data request was pending
        self.status_zlp_sent = None        # cycle the device sent its status ZLP (no-data requests)
        self.status_ack = None             # (start, end) cycle of the host ACK completing a no-data request

    def expected_total(self):
        if self.kind == "get_status":
            return 2
        return len(self.ref) if self.ref is not None else None

    def name(self):
        return "%s(%s)" % (self.kind, self.s8.hex())


class RefControl:
    """The oracle: stage tracker + judge.  `viol(symptom, detail)` is called for every contradiction."""

    def __init__(self, descs, viol, res, mps=EP0_MPS, get_config_override=None):
        self.mps = mps                             # wMaxPacketSize of endpoint 0
        self.get_config_override = get_config_override   # byte returned by the check's own handler when the standard one skips GET_CONFIGURATION
        self.foreign_setup_seen = False
        self.descs = descs
        self.viol = viol
        self.res = res
        self.cur = None
        self.addr = 0
        self.cfg = 0
        self.abandoned = False     # a transfer was left unfinished since the last fully successful one
        self.suspect = False       # ... and no bus reset has happened since that successful one (side effects unknown)
        self.dangling_unacked = False   # an ep0 data packet was never ACKed (host went on to the status stage)
        self.in_past_end = False   # the host sent an IN token after the last packet of a GET_DESCRIPTOR data stage
        self.log = []              # reference event log for other monitors (c08): dicts with cycle stamps

    # -- helpers
    def _mark(self, kind, **kw):
        kw["kind"] = kind
        self.log.append(kw)

    def bus_reset(self, cycle):
        """Address and configuration return to 0.  The statement says nothing about a transfer that was in flight:
        it counts as abandoned, the rest of it is not judged, but rule (i) keeps treating it as the current
        transfer until the next SETUP (a device that still answers its data stage after a reset is not flagged)."""
        if self.cur is not None and not self.cur.done:
            self.abandoned = True
            self.cur.legal = False
        elif not self.abandoned:
            self.suspect = False
        self.addr = 0
        self.cfg = 0
        self._mark("reset", cycle=cycle)

    # -- wire events on (our address, endpoint 0)
    def on_setup(self, s8, resp, cycle):
        if self.cur is not None and not self.cur.done:
            self.abandoned = True
            self.res.bin("setup_after_unfinished_%s" % self.cur.stage)
        self.cur = x = Xfer(s8, self.descs, self.cfg if self.get_config_override is None else self.get_config_override, cycle)
        self.res.event("setups_judged")
        self._mark("setup", cycle=cycle, xfer=x)
        if not (resp["kind"] == "handshake" and resp["pid"] == U.ACK):
            self.viol("setup_not_acked", "SETUP %s answered with %s" % (x.s8.hex(), brief(resp)))
            return False
        return True

    def on_in(self, resp, acked, cycle, ack_span=None):
        """IN token to ep0 was answered with `resp`; `acked`: host ACK was put on the wire right after it."""
        x = self.cur
        self.res.event("ep0_in_tokens_judged")
        nonempty = resp["kind"] in ("data", "malformed") and len(resp.get("payload", b"")) > 0
        in_data_stage = x is not None and x.dir_in and x.wlen > 0 and x.stage == "data_in"
        if nonempty and not in_data_stage:
            self.viol("data_sent_outside_in_data_stage",
                      "IN on ep0 in stage %s of %s answered with %d data bytes" % (
                          x.stage if x else None, x.name() if x else "no transfer", len(resp["payload"])))
            return False
        if not nonempty and not in_data_stage:
            self.res.bin("in_token_outside_data_stage")
        if x is None or x.done:
            return True
        if x.stage == "data_in":
            if x.kind == "get_descriptor" and (not x.legal or x.offset >= x.expected_total()):
                self.in_past_end = True
                self.res.bin("in_token_past_end_of_descriptor")
            if not (x.legal and x.supported):
                if resp["kind"] == "handshake" and resp["pid"] == U.STALL:
                    x.stalled = x.done = True
                if resp["kind"] == "data":
                    x.unacked = not acked
                return True
            total = x.expected_total()
            if x.offset >= total:
                x.legal = False            # IN beyond the end of the data stage: not judged
                return True
            if resp["kind"] == "handshake" and resp["pid"] == U.NAK:
                self.res.bin("ep0_nak")
                return True
            if resp["kind"] == "timeout":
                self.viol("data_stage_in_not_answered", "%s offset %d: no answer to IN" % (x.name(), x.offset))
                return False
            if resp["kind"] != "data":
                self.viol("data_stage_wrong_packet", "%s offset %d: answered %s" % (x.name(), x.offset, brief(resp)))
                return False
            n_exp = min(self.mps, total - x.offset)
            self.res.event("data_packets_judged")
            if resp["pid"] != (U.DATA1 if x.toggle else U.DATA0):
                self.viol("data_stage_wrong_toggle", "%s offset %d: PID %s expected DATA%d" % (
                    x.name(), x.offset, U.PID_NAMES.get(resp["pid"]), x.toggle))
                return False
            pay = bytes(resp["payload"])
            if len(pay) != n_exp:
                self.viol("data_stage_wrong_length", "%s offset %d: %d bytes, expected %d (%s)" % (
                    x.name(), x.offset, len(pay), n_exp, pay[:8].hex()))
                return False
            if x.ref is not None and pay != x.ref[x.offset:x.offset + n_exp]:
                self.viol("data_stage_wrong_data", "%s offset %d: got %s expected %s" % (
                    x.name(), x.offset, pay[:16].hex(), x.ref[x.offset:x.offset + 16].hex()))
                return False
            if acked:
                x.offset += n_exp
                x.toggle ^= 1
                x.unacked = False
                if x.kind == "get_descriptor":
                    self.dangling_unacked = False
            else:
                x.unacked = True
            return True
        if x.stage == "data_out":
            x.stage = "status_in"          # first IN token ends an OUT data stage
        if x.stage == "status_in":
            if not (x.legal and x.supported and x.kind in JUDGED_STATUS_IN):
                if resp["kind"] == "handshake" and resp["pid"] == U.STALL:
                    x.stalled = x.done = True
                elif resp["kind"] == "data" and acked:
                    x.done = True
                return True
            if resp["kind"] == "handshake" and resp["pid"] == U.NAK:
                self.res.bin("ep0_nak")
                return True
            self.res.event("status_stages_judged")
            if resp["kind"] == "timeout":
                self.viol("status_in_not_answered", "%s: no answer to status-stage IN" % x.name())
                return False
            if not (resp["kind"] == "data" and resp["pid"] == U.DATA1 and len(resp["payload"]) == 0):
                self.viol("status_in_not_zlp_data1", "%s: status-stage IN answered with %s" % (x.name(), brief(resp)))
                return False
            if x.status_zlp_sent is None:
                x.status_zlp_sent = cycle
            if acked:
                x.done = True
                x.status_ack = ack_span
                if x.kind == "set_address":
                    self.addr = x.value & 0x7F
                elif x.kind == "set_config":
                    self.cfg = x.value & 0xFF
                self._mark("commit", cycle=cycle, xfer=x, ack=ack_span)
            else:
                x.unacked = True
            return True
        # status_out: an IN token after the host moved on to an OUT status stage - no real host does this
        x.legal = False
        return True

    def on_out(self, pid, payload, resp, cycle):
        x = self.cur
        if x is None or x.done:
            return True
        if x.stage == "data_in":
            x.stage = "status_out"
            if x.unacked:
                self.dangling_unacked = True     # [USB2 8.5.3.3]: the OUT token tells the device its packet arrived
                self.res.bin("last_data_ack_lost_then_status")
            x.unacked = False
            if x.offset < (x.expected_total() or 0):
                self.res.bin("early_status")
        elif x.stage == "status_in":
            x.legal = False               # wrong direction
            return True
        elif x.stage == "data_out":
            if not (x.legal and x.kind == "vendor_out"):
                return True               # OUT data stage of requests the device does not support (C10)
            if resp["kind"] == "handshake" and resp["pid"] == U.NAK:
                self.res.bin("ep0_nak")
                return True
            self.res.event("out_data_packets_judged")
            if not (resp["kind"] == "handshake" and resp["pid"] == U.ACK):
                self.viol("data_stage_out_not_acked", "%s: OUT data packet (%d bytes) answered with %s" % (x.name(), len(payload), brief(resp)))
                return False
            x.offset += len(payload)
            return True
        if x.stage == "status_out":
            if not (x.legal and x.supported and pid == U.DATA1 and len(payload) == 0):
                x.legal = False
                if resp["kind"] == "handshake" and resp["pid"] in (U.ACK, U.STALL):
                    x.done = True
                return True
            if resp["kind"] == "handshake" and resp["pid"] == U.NAK:
                self.res.bin("ep0_nak")
                return True
            self.res.event("status_stages_judged")
            if resp["kind"] == "timeout":
                self.viol("status_out_not_acked", "%s: status-stage OUT ZLP not answered" % x.name())
                return False
            if not (resp["kind"] == "handshake" and resp["pid"] == U.ACK):
                self.viol("status_out_wrong_answer", "%s: status-stage OUT ZLP answered with %s" % (x.name(), brief(resp)))
                return False
            x.done = True
        return True

    def on_out_token_only(self):
        """OUT token to ep0 whose data packet never came."""
        x = self.cur
        if x is None or x.done:
            return
        if x.stage == "data_in":
            x.stage = "status_out"
        x.legal = False

    def on_ping(self):
        x = self.cur
        if x is not None and not x.done:
            x.legal = False

    def on_setup_other_endpoint(self):
        """SETUP token (+ DATA0) to this device's address but another endpoint number: nothing of endpoint 0 may change."""
        x = self.cur
        if x is not None and not x.done:
            x.foreign_setup = True
            self.res.bin("setup_other_endpoint_mid_transfer")
        else:
            self.res.bin("setup_other_endpoint_between_transfers")

    def on_foreign_ack(self, cycle):
        """An ACK handshake that does not belong to a data packet this device sent on ep0."""
        x = self.cur
        self._mark("foreign_ack", cycle=cycle)
        if x is None or x.done:
            return
        if x.stage == "data_in" and (x.unacked or self.dangling_unacked):
            x.foreign_ack_unacked = True
            self.res.bin("foreign_ack_while_ctrl_data_unacked")
        if x.stage == "status_in" and x.kind in SUPPORTED_NODATA:
            x.foreign_ack_nodata = True
            self.res.bin("foreign_ack_before_nodata_status")


def brief(resp):
    if resp["kind"] == "handshake":
        return U.PID_NAMES.get(resp["pid"], "?")
    if resp["kind"] == "data":
        return "%s[%d]" % (U.PID_NAMES.get(resp["pid"], "?"), len(resp["payload"]))
    if resp["kind"] == "malformed":
        return "malformed(%s)" % resp.get("why")
    return resp["kind"]


# ------------------------------------------------------------------------------------------ the host

class Session:
    """Scripted host on top of UTMIHost.  All methods are generators (yield = one cycle)."""

    BULK_IN_EP = 1
    BULK_OUT_EP = 2

    def __init__(self, b, host, rng, res, descs, utmi, *, foreign_ack_in_windows=True, report=True, resp_window=RESP_WINDOW,
                 mps=EP0_MPS, get_config_override=None):
        self.b, self.host, self.rng, self.res, self.descs, self.utmi = b, host, rng, res, descs, utmi
        self.episode_failed = False
        self.ref = RefControl(descs, self._viol, res, mps=mps, get_config_override=get_config_override)
        self.out_toggle = 0
        self.steps = []
        self.foreign_ack_in_windows = foreign_ack_in_windows
        self.resp_window = resp_window
        self.report = report       # False: protocol contradictions only stop the session (c08 judges other things)
        self.muted = []            # (symptom, detail) of contradictions that were not reported
        self.extra_foreign = []    # extra generator functions `foreign()` may pick (c08: address probes)
        self.vendor_action = None  # callable returning the vendor handler's action counter (c07)

    # -------------------------------------------------------------- judging glue
    def _viol(self, symptom, detail):
        """Name the mechanism.  Three failure patterns have their own (history based) names; every other
        contradiction keeps its symptom name.  (A fourth: IN tokens after the end of a descriptor.)"""
        x = self.ref.cur
        if self.episode_failed:
            return                      # consequences of the first failure of an episode are not judged
        self.episode_failed = True
        if not self.report:
            self.muted.append((symptom, detail))
            self.res.event("protocol_contradictions_left_to_c07")
            return
        if x is not None and x.foreign_setup:
            mech = "setup_for_other_endpoint_disturbs_ep0"
        elif self.ref.in_past_end:
            mech = "in_past_end_wedges_descriptor_handler"
        elif self.ref.abandoned or self.ref.suspect:
            mech = "stale_request_state_after_abandoned_transfer"
        elif x is not None and x.foreign_ack_unacked:
            mech = "foreign_ack_advances_control_data"
        elif x is not None and x.foreign_ack_nodata:
            mech = "foreign_ack_completes_nodata_request"
        else:
            mech = symptom
        tail = " | symptom=%s | last steps: %s" % (symptom, self.steps[-14:])
        self.res.violation(mech, detail + tail)

    def step(self, *a):
        self.steps.append(a if len(a) > 1 else a[0])
        self.res.sig(a)

    # -------------------------------------------------------------- wire level
    def _response(self, window=None):
        pkt = yield from self.host.wait_response(window or self.resp_window)
        if pkt is None:
            return {"kind": "timeout"}
        info = U.classify(pkt.data)
        info["t_end"] = pkt.end
        if info["kind"] == "malformed" and "payload" not in info:
            info["payload"] = bytes(pkt.data[1:])
        return info

    def w_setup(self, addr, s8, *, ep=0, data_gap=None):
        ours = addr == self.ref.addr and ep == 0
        self.step("SETUP", addr, ep, bytes(s8).hex())
        yield from self.host.token(U.SETUP, addr, ep)
        yield from self.host.idle(self.rng.randint(1, 4) if data_gap is None else data_gap)
        yield from self.host.data(U.DATA0, s8)
        r = yield from self._response()
        self.last_setup_response = r
        if ours:
            ok = self.ref.on_setup(s8, r, self.b.cycle)
            yield from self.host.gap()
            return ok
        yield from self.host.gap()
        return True

    def w_in(self, addr, ep, hs="ack", gap=True):
        """IN transaction; hs: 'ack' | 'none'.  Returns (ok, response)."""
        ours = addr == self.ref.addr and ep == 0
        self.step("IN", addr, ep, hs)
        yield from self.host.token(U.IN, addr, ep)
        r = yield from self._response()
        acked, span = False, None
        if r["kind"] == "data" and hs == "ack":
            yield from self.host.turnaround()
            t0 = self.b.cycle
            yield from self.host.handshake(U.ACK)
            acked, span = True, (t0, self.b.cycle)
        ok = True
        if ours:
            ok = self.ref.on_in(r, acked, self.b.cycle, span)
        elif acked:
            self.ref.on_foreign_ack(self.b.cycle)
        if gap:
            yield from self.host.gap()
        return ok, r

    def w_out(self, addr, ep, pid, payload, *, token_only=False):
        ours = addr == self.ref.addr and ep == 0
        self.step("OUT", addr, ep, U.PID_NAMES[pid], len(payload), token_only)
        yield from self.host.token(U.OUT, addr, ep)
        if token_only:
            if ours:
                self.ref.on_out_token_only()
            yield from self.host.idle(self.rng.randint(20, 30))
            return True, {"kind": "none"}
        yield from self.host.idle(self.rng.randint(1, 4))
        yield from self.host.data(pid, payload)
        r = yield from self._response()
        ok = True
        if ours:
            ok = self.ref.on_out(pid, payload, r, self.b.cycle)
        yield from self.host.gap()
        return ok, r

    def w_ping(self, addr, ep):
        self.step("PING", addr, ep)
        yield from self.host.token(U.PING, addr, ep)
        if addr == self.ref.addr and ep == 0:
            self.ref.on_ping()
        yield from self._response()
        yield from self.host.gap()

    def bus_reset(self, n=None, pre=3):
        """SE0 on the line for n cycles (>= 5 us = 300 cycles at the 60 MHz UTMI clock is a reset)."""
        n = n or self.rng.randint(310, 360)
        self.step("BUS_RESET", n)
        yield from self.host.idle(pre)
        self.b.set(self.utmi.line_state, 0b00)
        t0 = self.b.cycle
        yield from self.host.idle(n)
        self.b.set(self.utmi.line_state, 0b01)
        self.ref.bus_reset(self.b.cycle)
        self.ref.log[-1]["start"] = t0
        self.out_toggle = 0
        yield from self.host.idle(self.rng.randint(6, 20))

    def short_se0(self, n=None):
        """SE0 shorter than 2.5 us (150 cycles): not a reset [USB2 7.1.7.5]."""
        n = n or self.rng.randint(2, 120)
        self.step("SHORT_SE0", n)
        yield from self.host.idle(3)
        self.b.set(self.utmi.line_state, 0b00)
        yield from self.host.idle(n)
        self.b.set(self.utmi.line_state, 0b01)
        yield from self.host.idle(self.rng.randint(4, 12))

    def vbus_drop(self, n=None):
        """session_end high for n cycles: the device is unplugged/replugged; it must come back in the default state."""
        n = n or self.rng.randint(2, 40)
        self.step("VBUS_DROP", n)
        yield from self.host.idle(3)
        self.b.set(self.utmi.session_end, 1)
        t0 = self.b.cycle
        yield from self.host.idle(n)
        self.b.set(self.utmi.session_end, 0)
        self.ref.bus_reset(self.b.cycle)
        self.ref.log[-1]["start"] = t0
        self.out_toggle = 0
        yield from self.host.idle(self.rng.randint(6, 20))

    # -------------------------------------------------------------- foreign traffic
    def other_address(self):
        while True:
            a = self.rng.choice([self.ref.addr ^ (1 << self.rng.randrange(7)), self.rng.randrange(128)])
            if a != self.ref.addr:
                return a

    def foreign(self, kind=None, allow_ack=True):
        """One transaction that does not belong to endpoint 0 of this device."""
        rng = self.rng
        kinds = ["bulk_in_ack", "bulk_in_ack", "bulk_in_noack", "bulk_out", "bulk_out", "noep_in", "noep_out",
                 "other_dev_in", "other_dev_out", "other_dev_setup", "sof", "other_ep_ping", "own_setup_other_ep"]
        if kind is None:
            if self.extra_foreign and rng.random() < 0.35:
                yield from rng.choice(self.extra_foreign)()
                return "extra"
            kind = rng.choice(kinds)
        if not allow_ack and kind in ("bulk_in_ack", "other_dev_in", "other_dev_out", "other_dev_setup"):
            kind = {"bulk_in_ack": "bulk_in_noack", "other_dev_in": "noep_in", "other_dev_out": "bulk_out",
                    "other_dev_setup": "sof"}[kind]
        self.res.bin("foreign_" + kind)
        self.res.event("foreign_transactions")
        a = self.ref.addr
        if kind in ("bulk_in_ack", "bulk_in_noack"):
            ok, r = yield from self.w_in(a, self.BULK_IN_EP, "ack" if kind == "bulk_in_ack" else "none")
            # the bulk IN endpoint of the test device only ever has 0xA5 bytes to send
            bad = r["kind"] in ("malformed", "badpid", "empty", "special", "token", "sof") or \
                (r["kind"] == "data" and (len(r["payload"]) > 8 or set(r["payload"]) - {0xA5}))
            if bad:
                self._viol("foreign_in_transaction_corrupted", "IN on bulk endpoint %d answered with %s %s" % (
                    self.BULK_IN_EP, brief(r), bytes(r.get("payload", b""))[:12].hex()))
        elif kind == "bulk_out":
            n = rng.choice([0, 1, 3, 8, 8])
            ok, r = yield from self.w_out(a, self.BULK_OUT_EP, U.DATA1 if self.out_toggle else U.DATA0,
                                          bytes(rng.randrange(256) for _ in range(n)))
            self.out_toggle ^= 1
            if r["kind"] not in ("handshake", "timeout"):
                self._viol("foreign_out_transaction_corrupted", "OUT on bulk endpoint %d answered with %s" % (self.BULK_OUT_EP, brief(r)))
        elif kind == "noep_in":
            e = rng.choice([3, 5, 9, 15])
            ok, r = yield from self.w_in(a, e, "none")
            if r["kind"] != "timeout":
                self._viol("token_of_unused_endpoint_answered", "IN to endpoint %d (no such endpoint) answered with %s" % (e, brief(r)))
        elif kind == "noep_out":
            e = rng.choice([3, 5, 9, 15])
            ok, r = yield from self.w_out(a, e, U.DATA0, bytes(rng.randrange(256) for _ in range(rng.choice([0, 8]))))
            if r["kind"] != "timeout":
                self._viol("token_of_unused_endpoint_answered", "OUT to endpoint %d (no such endpoint) answered with %s" % (e, brief(r)))
        elif kind == "other_dev_in":
            # IN to another device, its data packet and the host's ACK are all visible on the shared bus
            oa, oe = self.other_address(), rng.choice([0, 0, 1, 2])
            self.step("OTHER_IN", oa, oe)
            yield from self.host.token(U.IN, oa, oe)
            yield from self.host.idle(rng.randint(2, 6))
            yield from self.host.data(rng.choice([U.DATA0, U.DATA1]), bytes(rng.randrange(256) for _ in range(rng.choice([0, 2, 8, 18]))))
            yield from self.host.idle(rng.randint(2, 5))
            yield from self.host.handshake(U.ACK)
            self.ref.on_foreign_ack(self.b.cycle)
            yield from self.host.gap()
        elif kind == "other_dev_out":
            oa, oe = self.other_address(), rng.choice([0, 0, 1, 2])
            self.step("OTHER_OUT", oa, oe)
            yield from self.host.token(U.OUT, oa, oe)
            yield from self.host.idle(rng.randint(1, 4))
            yield from self.host.data(rng.choice([U.DATA0, U.DATA1]), bytes(rng.randrange(256) for _ in range(rng.choice([0, 8, 16]))))
            yield from self.host.idle(rng.randint(2, 6))
            yield from self.host.handshake(U.ACK)          # the other device's ACK
            self.ref.on_foreign_ack(self.b.cycle)
            yield from self.host.gap()
        elif kind == "other_dev_setup":
            oa = self.other_address()
            s8 = rng.choice([SET_ADDRESS(rng.randrange(128)), SET_CONFIGURATION(1), GET_DESCRIPTOR(1, 0, 18)])
            self.step("OTHER_SETUP", oa, s8.hex())
            yield from self.host.token(U.SETUP, oa, 0)
            yield from self.host.idle(rng.randint(1, 4))
            yield from self.host.data(U.DATA0, s8)
            yield from self.host.idle(rng.randint(2, 6))
            yield from self.host.handshake(U.ACK)
            self.ref.on_foreign_ack(self.b.cycle)
            yield from self.host.gap()
        elif kind == "own_setup_other_ep":
            # SETUP transaction to this device's address, endpoint != 0: must not be answered and must not touch the
            # transfer in progress on endpoint 0; it looks like a request endpoint 0 would serve
            e = rng.choice([self.BULK_IN_EP, self.BULK_OUT_EP, 5, 8])
            s8 = rng.choice([GET_DESCRIPTOR(1, 0, 18), GET_DESCRIPTOR(2, 0, 64), SET_ADDRESS(rng.randrange(1, 128)),
                             SET_CONFIGURATION(1), VENDOR(True, rng.randrange(256), 4)])
            self.ref.on_setup_other_endpoint()
            yield from self.w_setup(a, s8, ep=e)
            if self.last_setup_response["kind"] != "timeout":
                # endpoint 0 is the only control endpoint of the device: nobody may answer this transaction
                self._viol("setup_for_other_endpoint_answered", "SETUP to endpoint %d answered with %s" % (e, brief(self.last_setup_response)))
            if self.ref.cur is None or self.ref.cur.done:
                yield from self.w_in(a, 0, "none")      # no transfer on ep0: this IN must not carry data (rule i)
        elif kind == "other_ep_ping":
            yield from self.w_ping(a, rng.choice([self.BULK_OUT_EP, self.BULK_OUT_EP, 5]))     # answer not judged
        elif kind == "sof":
            self.step("SOF")
            yield from self.host.sof(rng.randrange(2048))
            yield from self.host.gap()
        return kind

    def interleave(self, where, p=0.45, allow_ack=True):
        """0..2 foreign transactions at a point between the stages/packets of a control transfer."""
        n = 0
        while self.rng.random() < p and n < 2:
            yield from self.foreign(allow_ack=allow_ack)
            n += 1
        if n:
            self.res.bin("interleave_" + where)
        if self.rng.random() < 0.2:
            yield from self.host.idle(self.rng.randint(1, 40))
        return n

    # -------------------------------------------------------------- legal transfers (judged)
    def transfer_in(self, s8, *, p_inter=0.45, p_noack=0.15, early=False, status=True):
        """Complete device-to-host transfer as a real host performs it.  Returns True if everything matched."""
        rng, ref = self.rng, self.ref
        a = ref.addr
        ok = yield from self.w_setup(a, s8)
        if not ok:
            return False
        x = ref.cur
        total = x.expected_total()
        if total is None:
            total = 0
        yield from self.interleave("after_setup", p_inter)
        naks = 0
        packets = 0
        last_ack_lost = rng.random() < 0.08
        while x.offset < total:
            noack = rng.random() < p_noack
            final = total - x.offset <= self.ref.mps
            if final and last_ack_lost:
                noack = True
            ok, r = yield from self.w_in(a, 0, "none" if noack else "ack")
            if not ok:
                return False
            if r["kind"] == "handshake" and r["pid"] == U.NAK:
                naks += 1
                if naks > 12:
                    self._viol("data_stage_nak_forever", "%s: NAK %d times" % (x.name(), naks))
                    return False
                continue
            if r["kind"] != "data":
                return False          # STALL etc. on an unjudged request
            if final and last_ack_lost:
                break                 # the host got the packet, its ACK was lost: it goes on to the status stage
            if noack:
                self.res.bin("ctrl_data_unacked_then_retried")
                # the host saw a damaged packet (or its ACK was lost): other traffic may come before the retry
                yield from self.interleave("before_retry", p_inter, allow_ack=self.foreign_ack_in_windows)
                continue
            packets += 1
            if x.offset < total:
                yield from self.interleave("between_data_packets", p_inter)
                if early and packets >= 1:
                    break
        if packets > 1:
            self.res.bin("multi_packet_data_stage")
        if not status:
            return True
        yield from self.interleave("before_status", p_inter)
        naks = 0
        while True:
            ok, r = yield from self.w_out(a, 0, U.DATA1, b"")
            if not ok:
                return False
            if r["kind"] == "handshake" and r["pid"] == U.NAK and naks < 12:
                naks += 1
                continue
            break
        return x.done and not self.episode_failed

    def transfer_out(self, s8, *, p_inter=0.45, p_noack=0.2):
        """Host-to-device transfer with an OUT data stage (single packets of <= 8 bytes), then the IN status stage."""
        rng, ref = self.rng, self.ref
        a = ref.addr
        ok = yield from self.w_setup(a, s8)
        if not ok:
            return False
        x = ref.cur
        yield from self.interleave("after_setup_out", p_inter)
        toggle, naks = 1, 0
        while x.offset < x.wlen:
            n = min(8, x.wlen - x.offset)
            ok, r = yield from self.w_out(a, 0, U.DATA1 if toggle else U.DATA0, bytes(rng.randrange(256) for _ in range(n)))
            if not ok:
                return False
            if r["kind"] == "handshake" and r["pid"] == U.NAK:
                naks += 1
                if naks > 12:
                    self._viol("data_stage_nak_forever", "%s: NAK %d times" % (x.name(), naks))
                    return False
                continue
            toggle ^= 1
            yield from self.interleave("between_out_data_packets", p_inter)
        ok = yield from self._status_in(x, p_inter, p_noack)
        return ok

    def _status_in(self, x, p_inter, p_noack):
        rng, a = self.rng, self.ref.addr
        before = self.vendor_action() if (self.vendor_action and x.kind == "vendor_nodata") else None
        naks = tries = 0
        while not x.done:
            noack = rng.random() < p_noack and tries < 3
            ok, r = yield from self.w_in(a, 0, "none" if noack else "ack")
            if not ok:
                return False
            tries += 1
            if r["kind"] == "handshake" and r["pid"] == U.NAK:
                naks += 1
                if naks > 12:
                    self._viol("status_stage_nak_forever", "%s: NAK %d times" % (x.name(), naks))
                    return False
                continue
            if r["kind"] != "data":
                return False
            if noack:
                self.res.bin("status_zlp_unacked_then_retried")
                yield from self.interleave("before_status_retry", p_inter, allow_ack=self.foreign_ack_in_windows)
        if before is not None and not self.episode_failed:
            yield from self.host.idle(4)
            self.res.event("vendor_actions_judged")
            got = (self.vendor_action() - before) & 0xFF
            if got != 1:
                self._viol("handler_action_count_wrong", "%s completed: the handler saw %d ACKed status ZLPs, expected 1" % (x.name(), got))
        return not self.episode_failed

    def transfer_nodata(self, s8, *, p_inter=0.45, p_noack=0.2):
        rng, ref = self.rng, self.ref
        a = ref.addr
        ok = yield from self.w_setup(a, s8)
        if not ok:
            return False
        x = ref.cur
        if x.kind == "vendor_nodata":
            yield from self.interleave("after_setup_nodata", p_inter, allow_ack=self.foreign_ack_in_windows)
            ok = yield from self._status_in(x, p_inter, p_noack)
            return ok
        yield from self.interleave("after_setup_nodata", p_inter, allow_ack=self.foreign_ack_in_windows)
        naks = 0
        tries = 0
        while not x.done:
            noack = rng.random() < p_noack and tries < 3
            ok, r = yield from self.w_in(a, 0, "none" if noack else "ack")
            if not ok:
                return False
            tries += 1
            if r["kind"] == "handshake" and r["pid"] == U.NAK:
                naks += 1
                if naks > 12:
                    self._viol("status_stage_nak_forever", "%s: NAK %d times" % (x.name(), naks))
                    return False
                continue
            if r["kind"] != "data":
                return False
            if noack:
                self.res.bin("status_zlp_unacked_then_retried")
                yield from self.interleave("before_status_retry", p_inter, allow_ack=self.foreign_ack_in_windows)
        return not self.episode_failed

    def random_supported(self):
        """(setup bytes, 'in'|'nodata', bin name) of a request with a known reference result."""
        rng = self.rng
        if rng.random() < 0.22:
            v = rng.randrange(65536)
            k = rng.choice(["in_data", "in_wlength0", "in_wlength0", "out_data", "out_wlength0"])
            rcp = rng.choice([0, 0, 1])
            if k == "in_data":
                return VENDOR(True, v, rng.choice([1, 2, 3, 4, 5, 64, 256, 0x1234])), "in", "xfer_vendor_in_data"
            if k == "in_wlength0":
                return VENDOR(True, v, 0, rcp), "nodata", "xfer_vendor_in_wlength0"
            if k == "out_data":
                return VENDOR(False, v, rng.choice([1, 2, 8, 9, 16, 17])), "out", "xfer_vendor_out_data"
            return VENDOR(False, v, 0, rcp), "nodata", "xfer_vendor_out_wlength0"
        r = rng.random()
        if r < 0.42:
            key = rng.choice(sorted(self.descs))
            d = self.descs[key]
            n = rng.choice([len(d), len(d), 255, 8, 9, 18, 64, len(d) + 1, max(1, len(d) - 1), rng.randint(1, 300), 0xFFFF, 512])
            return GET_DESCRIPTOR(key[0], key[1], n, rng.choice([0, 0x0409])), "in", "xfer_get_descriptor"
        if r < 0.52:
            # device status, or status of endpoint 0 (valid in every device state, USB 2.0 9.4.5)
            rcp = rng.choice([0, 0, 2])
            return GET_STATUS(rcp, rng.choice([0, 0x80]) if rcp == 2 else 0), "in", "xfer_get_status"
        if r < 0.64:
            return GET_CONFIGURATION(), "in", "xfer_get_configuration"
        if r < 0.78:
            return SET_CONFIGURATION(rng.choice([0, 1, 1])), "nodata", "xfer_set_configuration"
        if r < 0.9:
            return SET_ADDRESS(rng.choice([rng.randrange(1, 128), self.ref.addr ^ (1 << rng.randrange(7)), 0])), "nodata", "xfer_set_address"
        return CLEAR_HALT(rng.choice([0x81, 0x02, 0x00, 0x80])), "nodata", "xfer_clear_halt"

    def judged_transfer(self, **kw):
        s8, shape, name = self.random_supported()
        self.res.bin(name)
        self.res.event("transfers_judged")
        if shape == "in":
            x_total = len(self.descs.get((s8[3], s8[2]), b"")) if s8[1] == 6 else 0
            early = x_total > self.ref.mps and self.rng.random() < 0.15
            ok = yield from self.transfer_in(s8, early=early, **kw)
        elif shape == "out":
            ok = yield from self.transfer_out(s8, **kw)
        else:
            ok = yield from self.transfer_nodata(s8, **kw)
        if ok:
            if self.ref.abandoned:
                # looked right on the wire, but a device that kept state of the unfinished transfer may have applied
                # the request to the wrong register: only a bus reset makes address/configuration known again
                self.ref.abandoned, self.ref.suspect = False, True
            self.res.event("transfers_completed_as_reference")
        return ok

    # -------------------------------------------------------------- junk (unjudged except setup ACK and rule (i))
    def random_request(self):
        rng = self.rng
        r = rng.random()
        if r < 0.6:
            return self.random_supported()[0]
        if r < 0.7:
            return U.setup_bytes(rng.choice([0xC0, 0xA1, 0x40, 0x21]), rng.randrange(256), rng.randrange(65536), 0, rng.choice([0, 4, 64]))
        if r < 0.8:
            return GET_DESCRIPTOR(rng.choice([1, 2, 3, 6, 0x22]), rng.choice([0, 7, 200]), rng.choice([0, 8, 64]))   # may not exist / wLength 0
        if r < 0.9:
            return U.setup_bytes(0x00, 7, 0x0100, 0, 8)        # SET_DESCRIPTOR: OUT data stage, not supported
        return U.setup_bytes(0x80 if rng.random() < 0.5 else 0, rng.choice([2, 3, 10, 11, 12]), rng.randrange(4), 0, rng.choice([0, 1, 2]))

    def junk(self):
        """A piece of host behaviour that leaves a control transfer unfinished or does things out of order."""
        rng, ref = self.rng, self.ref
        a = ref.addr
        kind = rng.choice(["setup_only", "setup_only", "partial_data", "data_no_status", "status_token_only",
                           "status_zlp_unacked", "wrong_direction", "ping", "stray_tokens", "out_data_request",
                           "double_setup", "reset_mid_transfer", "wrong_status_data", "in_past_end"])
        self.res.bin("junk_" + kind)
        self.step("JUNK", kind)
        if kind == "setup_only":
            yield from self.w_setup(a, self.random_request())
        elif kind == "double_setup":
            s8 = self.random_request()
            yield from self.w_setup(a, s8)
            yield from self.w_setup(a, s8 if rng.random() < 0.5 else self.random_request())
        elif kind in ("partial_data", "data_no_status", "status_token_only", "wrong_status_data"):
            key = rng.choice(sorted(self.descs))
            d = self.descs[key]
            ok = yield from self.w_setup(a, GET_DESCRIPTOR(key[0], key[1], rng.choice([len(d), 255, 64])))
            x = ref.cur
            n = 0
            limit = 1 if kind == "partial_data" else 8
            while ok and n < limit and x.offset < (x.expected_total() or 0):
                hs = "none" if (kind == "partial_data" and rng.random() < 0.5) else "ack"
                ok, r = yield from self.w_in(a, 0, hs)
                n += 1
                if r["kind"] != "data":
                    break
                if rng.random() < 0.3:
                    yield from self.foreign(allow_ack=False)
            if ok and kind == "status_token_only":
                yield from self.w_out(a, 0, U.DATA1, b"", token_only=True)
            if ok and kind == "wrong_status_data":
                yield from self.w_out(a, 0, rng.choice([U.DATA0, U.DATA1]), bytes(rng.randrange(256) for _ in range(rng.choice([1, 8]))))
        elif kind == "in_past_end":
            # whole data stage, then more IN tokens than there is data (multi-packet descriptors preferred)
            keys = sorted(self.descs, key=lambda k: -len(self.descs[k]))
            key = keys[0] if rng.random() < 0.6 else rng.choice(keys)
            ok = yield from self.transfer_in(GET_DESCRIPTOR(key[0], key[1], rng.choice([255, 0x3FF])), p_inter=0.0, p_noack=0.0, status=False)
            if ok and not self.episode_failed:
                for _ in range(rng.randint(1, 2)):
                    yield from self.w_in(a, 0, rng.choice(["ack", "none"]))
                if rng.random() < 0.6:
                    yield from self.w_out(a, 0, U.DATA1, b"")
        elif kind == "status_zlp_unacked":
            s8 = rng.choice([SET_CONFIGURATION(rng.randrange(4)), SET_ADDRESS(rng.randrange(1, 128)), CLEAR_HALT(0x81)])
            ok = yield from self.w_setup(a, s8)
            if ok:
                yield from self.w_in(a, 0, "none")
        elif kind == "wrong_direction":
            if rng.random() < 0.5:
                ok = yield from self.w_setup(a, SET_CONFIGURATION(rng.randrange(3)))
                if ok:
                    yield from self.w_out(a, 0, U.DATA1, b"")
                    if rng.random() < 0.5:
                        yield from self.w_in(a, 0, "none")
            else:
                ok = yield from self.w_setup(a, GET_DESCRIPTOR(1, 0, 18))
                if ok:
                    ok, r = yield from self.w_out(a, 0, U.DATA1, b"")
                    yield from self.w_in(a, 0, "none")          # IN after the status stage: must not carry data
        elif kind == "ping":
            ok = yield from self.w_setup(a, self.random_request())
            yield from self.w_ping(a, 0)
            if rng.random() < 0.5:
                yield from self.w_in(a, 0, "none")
        elif kind == "stray_tokens":
            for _ in range(rng.randint(1, 3)):
                if rng.random() < 0.6:
                    yield from self.w_in(a, 0, "none")
                else:
                    yield from self.w_out(a, 0, rng.choice([U.DATA0, U.DATA1]), b"")
        elif kind == "out_data_request":
            ok = yield from self.w_setup(a, U.setup_bytes(0x00, 7, 0x0100, 0, 8))
            if ok and rng.random() < 0.7:
                yield from self.w_out(a, 0, U.DATA1, bytes(rng.randrange(256) for _ in range(8)))
                if rng.random() < 0.5:
                    yield from self.w_in(a, 0, "none")
        elif kind == "reset_mid_transfer":
            ok = yield from self.w_setup(a, self.random_request())
            if ok and ref.cur.stage == "data_in" and rng.random() < 0.5:
                yield from self.w_in(a, 0, "ack")
            yield from self.bus_reset()
        return kind

    # -------------------------------------------------------------- recovery after a failed episode
    def resync(self):
        """After a contradiction the device state is unknown: bus reset, then unjudged simple transfers until
        one completes like the reference (bounded).  Nothing is judged here except that it ends."""
        self.step("RESYNC")
        self.res.event("resyncs")
        self.episode_failed = True        # mute the judge
        yield from self.bus_reset()
        good = False
        for _ in range(5):
            self.episode_failed = True
            a = self.ref.addr
            yield from self.w_setup(a, GET_STATUS())
            # an ACK on the wire (bulk IN transaction) between SETUP and data stage: harmless for a conforming device
            yield from self.w_in(a, self.BULK_IN_EP, "ack")
            ok, r = yield from self.w_in(a, 0, "ack")
            if r["kind"] == "data" and len(r["payload"]) == 2:
                ok, r = yield from self.w_out(a, 0, U.DATA1, b"")
                if r["kind"] == "handshake" and r["pid"] == U.ACK:
                    good = True
                    break
            else:
                yield from self.w_out(a, 0, U.DATA1, b"")
        self.episode_failed = False
        self.ref.abandoned = False
        self.ref.cur = None
        if not good:
            self.res.violation("device_dead_after_reset", "no GET_STATUS completed in 5 attempts after a bus reset; steps %s" % self.steps[-20:])
        return good
