"""Reference ULPI 1.1 PHY model for the cycle-synchronous Bench (used by C22, C23, C24).  No luna code.

The model is a Moore machine: every cycle it looks at what was on the wires during the cycle that just
ended (its own DIR/NXT/DATA as sampled by the DUT, the link's DATA/OE/STP) and decides its outputs
for the next cycle.  So it reacts to the link with >= 1 cycle latency, like a PHY with registered
outputs.  It is written from ULPI 1.1 (sections 3.8.1 - 3.8.3) and section 11 of DESIGN.md:

* bus ownership: DIR low = link drives, DIR high = PHY drives; the first cycle after every DIR change
  is a turnaround cycle in which the data lines carry nothing meaningful (the model drives garbage
  there when `garbage=True`);
* link commands (DIR low, data != 0): 01xxxxxx transmit (low nibble = PID, 0 = NOPID), 10aaaaaa
  register write, 11aaaaaa register read.  The link has to hold a byte until the cycle in which the
  PHY shows NXT; the byte on the wires in that cycle is the accepted one.
* transmit: after the command every cycle with NXT (and without STP) consumes the byte on the wires;
  the packet ends in the cycle in which STP is high (the data byte of that cycle is the status:
  0x00 ok, anything else = forced error).  NXT in the STP cycle is meaningless (the PHY cannot know
  that STP is coming) and is randomised.
* register write: command accepted, data byte accepted, then STP; the register file is updated when
  STP is sampled with DIR low.  If the PHY raises DIR before that (receive / RxCmd), the write is
  aborted and the link has to repeat it (also when DIR rises in the very cycle of the STP).
* register read: command accepted, next cycle DIR rises (turnaround), next cycle the register value
  is on the wires with NXT low, next cycle DIR falls (or stays high for an immediately following
  RxCmd).
* receive side (PHY-originated "activities"): DIR rises with NXT (= receive start) or without; while
  DIR is high (after the turnaround cycle) a cycle with NXT carries a data byte, a cycle without NXT
  carries an RxCmd.  The PHY never starts an activity in the body of a transmit packet.

Everything the model puts on / sees on the wires is logged with cycle numbers so that the checks can
judge the DUT against it:

  rxcmds      [(cycle, byte, link_busy_info)]        RxCmd bytes presented
  rxdata      [(cycle, byte, ref_active)]            NXT-qualified bytes while DIR high
  ref_active  {cycle: bool}                          reference RxActive after each cycle
  rx_starts / rx_ends                                receive start / end events
  tx_packets  [dict]                                 what the link transmitted
  reg_writes  [(cycle, addr, value, info)]           committed register writes
  anomalies   [(cycle, name, info)]                  protocol irregularities of the link
"""

import os

RXEVENT_IDLE, RXEVENT_ACTIVE, RXEVENT_HOSTDISC, RXEVENT_ERROR = 0, 1, 2, 3


def rxcmd(line_state=0, vbus=0, rxevent=0, id_dig=0, alt_int=0):
    """ULPI 1.1 table 7: [1:0] LineState, [3:2] VbusState, [5:4] RxEvent, [6] ID, [7] alt_int."""
    return (line_state & 3) | ((vbus & 3) << 2) | ((rxevent & 3) << 4) | ((id_dig & 1) << 6) | ((alt_int & 1) << 7)


def decode_rxcmd(b):
    """UTMI+ meaning of an RxCmd byte (ULPI 1.1 tables 7 and 8)."""
    vbus = (b >> 2) & 3
    ev = (b >> 4) & 3
    return {
        "line_state": b & 3,
        "vbus_valid": int(vbus == 3),
        "session_valid": int(vbus >= 2),
        "session_end": int(vbus == 0),
        "rx_active": int(ev in (RXEVENT_ACTIVE, RXEVENT_ERROR)),
        "rx_error": int(ev == RXEVENT_ERROR),
        "host_disconnect": int(ev == RXEVENT_HOSTDISC),
        "id_digital": (b >> 6) & 1,
    }


IDLE, CMDWAIT, TX, WR_DATA, WR_STP, RD_TA, RD_DATA, RX, TA_OUT = range(9)
MODE_NAMES = ["idle", "cmdwait", "tx", "wr_data", "wr_stp", "rd_ta", "rd_data", "rx", "ta_out"]


class ULPIPhy:
    def __init__(self, bench, ulpi, rng, *, cmd_latency=(0, 2), tx_nxt="always", reg_nxt=("random", 0.85),
                 garbage=True, regs=None):
        self.b = bench
        self.u = ulpi
        self.rng = rng
        self.cmd_latency = cmd_latency      # extra cycles before NXT answers a command byte
        self.tx_nxt = tx_nxt                # NXT profile in a transmit body
        self.reg_nxt = reg_nxt              # NXT profile while waiting for register-write data
        self.garbage = garbage
        # ULPI 1.1 reset values: Function Control 0x41, Interface Control 0x00, OTG Control 0x06
        self.regs = {0x04: 0x41, 0x07: 0x00, 0x0A: 0x06}
        if regs:
            self.regs.update(regs)
        self.mode = IDLE
        self.out = (0, 0, 0)                # dir, nxt, data.i for the cycle being driven
        self.kind = None                    # what the PHY drives in that cycle ('ta','cmd','data','regdata',None)
        self.sampled_kind = None
        self.prev_dir = 0
        self.active = False                 # reference RxActive
        self.queue = []                     # pending activities: [earliest_cycle, cycles(list), name]
        self.cur = None                     # activity being played: [iterator position, list, name]
        self.played = 0                     # activities completed
        self.wait = 0
        self.cmd_first = None
        self.pkt = None
        self.wr = None
        self.rd = None
        self._nxt_state = [0, 0]
        self.hold_dir_after_read = 0
        # logs
        self.rxcmds, self.rxdata, self.ref_active = [], [], {}
        self.rx_starts, self.rx_ends = [], []
        self.tx_packets, self.reg_writes, self.reg_reads, self.anomalies = [], [], [], []
        self.aborts = []                    # (cycle, what was aborted)
        self.cmd_seen = []                  # (cycle, byte): a command byte appeared on an idle bus
        self.oe_while_dir = 0
        self.stp_while_dir = 0
        self.dir_cycles = 0
        self.cycles = 0
        self.link_busy_probe = None         # optional callable -> info stored with every RxCmd
        self.trace = [] if os.environ.get("VERIF_TRACE") else None
        self.notes = {}                     # counters of noteworthy situations (coverage bins of the checks)
        self.stp_cycles = 0
        bench.watch(ulpi.data.i, ulpi.data.o, ulpi.data.oe, ulpi.nxt.i, ulpi.dir.i, ulpi.stp.o)
        bench.add_monitor(self.step)

    # ------------------------------------------------------------------ scheduling of PHY-originated activity
    def schedule(self, cycles, at=None, name=""):
        """`cycles` = list of (nxt, byte, kind) for the DIR-high cycles, the first one being the turnaround."""
        self.queue.append([at if at is not None else 0, list(cycles), name])

    @property
    def rx_pending(self):
        return bool(self.queue) or self.cur is not None

    @property
    def link_active(self):
        return self.mode in (CMDWAIT, TX, WR_DATA, WR_STP, RD_TA, RD_DATA)

    # ------------------------------------------------------------------ helpers
    def _anom(self, name, info=None):
        self.anomalies.append((self.b.cycle, name, info))

    def _profile_nxt(self, prof):
        rng = self.rng
        if prof == "always":
            return 1
        kind = prof[0]
        if kind == "random":
            return int(rng.random() < prof[1])
        if kind == "every":
            self._nxt_state[0] = (self._nxt_state[0] + 1) % prof[1]
            return int(self._nxt_state[0] == 0)
        if kind == "bursty":          # ("bursty", maxstall, maxrun)
            st = self._nxt_state
            if st[1] <= 0:
                st[0] ^= 1
                st[1] = rng.randint(1, prof[2] if st[0] else prof[1])
            st[1] -= 1
            return st[0]
        raise ValueError(prof)

    def _due(self, at, k, nm):
        """`at` = earliest cycle, or ("stage", mode[, command code]): start exactly when the link reaches that stage of a command
        (CMDWAIT = command byte seen, WR_DATA = write command accepted, WR_STP = write data accepted, i.e. DIR rises in the STP cycle)."""
        if isinstance(at, tuple):
            if nm != at[1]:
                return False
            if len(at) > 2 and nm == CMDWAIT:
                return (self.cmd_first[1] >> 6) == at[2]
            if len(at) > 2 and nm in (WR_DATA, WR_STP):
                return at[2] == 2
            return True
        return k >= at

    def _garbage(self):
        return self.rng.randrange(256) if self.garbage else 0

    # ------------------------------------------------------------------ one cycle
    def step(self, b):
        u = self.u
        k = b.cycle
        self.cycles = k
        dir_s, nxt_s, di_s = b.get(u.dir.i), b.get(u.nxt.i), b.get(u.data.i)
        do_s, oe_s, stp_s = b.get(u.data.o), b.get(u.data.oe), b.get(u.stp.o)
        kind_s = self.kind
        self.sampled_kind = kind_s          # what the PHY itself drove in the sampled cycle
        if self.trace is not None:
            self.trace.append((k, MODE_NAMES[self.mode], dir_s, nxt_s, di_s, do_s, oe_s, stp_s))
        link_byte = do_s if oe_s else 0

        # ---- A. reference decoding of what the PHY presented in this cycle
        if dir_s:
            self.dir_cycles += 1
            if oe_s:
                self.oe_while_dir += 1
            if stp_s:
                self.stp_while_dir += 1
            if not self.prev_dir:
                if nxt_s:
                    if not self.active:
                        self.rx_starts.append((k, "dirnxt"))
                    self.active = True
            elif kind_s == "regdata":
                pass
            elif nxt_s:
                self.rxdata.append((k, di_s, self.active))
            else:
                info = self.link_busy_probe() if self.link_busy_probe else None
                self.rxcmds.append((k, di_s, info))
                new = bool((di_s >> 4) & 1)
                if new and not self.active:
                    self.rx_starts.append((k, "rxcmd"))
                if self.active and not new:
                    self.rx_ends.append((k, "rxcmd"))
                self.active = new
        else:
            if self.prev_dir and self.active:
                self.rx_ends.append((k, "dir"))
            if self.prev_dir:
                self.active = False
        self.ref_active[k] = self.active
        self.prev_dir = dir_s

        # ---- B. what the link did in this cycle, seen from the state the PHY was in
        m = self.mode
        nm = m
        if stp_s:
            self.stp_cycles += 1
        if m == IDLE:
            if stp_s and not dir_s:
                self._anom("stp_while_idle", link_byte)
            if link_byte and not stp_s and not dir_s:
                nm = CMDWAIT
                self.cmd_first = (k, link_byte)
                self.cmd_seen.append((k, link_byte))
                self.wait = self.rng.randint(*self.cmd_latency)
        elif m == CMDWAIT:
            if nxt_s:
                if link_byte == 0:
                    self._anom("nxt_answered_by_idle_bus", {"first": self.cmd_first})
                    nm = IDLE
                else:
                    if link_byte != self.cmd_first[1]:
                        self._anom("command_changed_before_accept", {"first": self.cmd_first, "now": link_byte})
                    code = link_byte >> 6
                    if code == 1:
                        self.pkt = {"cmd": link_byte, "seen": self.cmd_first[0], "accept": k, "bytes": [], "cycles": [],
                                    "stp_cycle": None, "stp_data": None, "nxt_at_stp": None}
                        nm = TX
                    elif code == 2:
                        self.wr = {"addr": link_byte & 0x3F, "seen": self.cmd_first[0], "accept": k, "value": None,
                                   "data_cycle": None, "late": 0}
                        nm = WR_DATA
                    elif code == 3:
                        self.rd = {"addr": link_byte & 0x3F, "accept": k}
                        nm = RD_TA
                    else:
                        self._anom("special_command", link_byte)
                        nm = IDLE
            else:
                if link_byte == 0:
                    self._anom("command_withdrawn", {"first": self.cmd_first})
                    nm = IDLE
                elif link_byte != self.cmd_first[1]:
                    self._anom("command_changed_before_accept", {"first": self.cmd_first, "now": link_byte})
                    self.cmd_first = (self.cmd_first[0], link_byte)
        elif m == TX:
            if stp_s:
                self.pkt.update(stp_cycle=k, stp_data=link_byte, nxt_at_stp=nxt_s)
                self.tx_packets.append(self.pkt)
                self.pkt = None
                nm = IDLE
            elif nxt_s:
                self.pkt["bytes"].append(link_byte)
                self.pkt["cycles"].append(k)
        elif m == WR_DATA:
            if stp_s:
                self._anom("regwrite_stp_before_data", dict(self.wr))
                nm = IDLE
            elif nxt_s:
                self.wr["value"] = link_byte
                self.wr["data_cycle"] = k
                nm = WR_STP
        elif m == WR_STP:
            if stp_s:
                self.regs[self.wr["addr"]] = self.wr["value"]
                self.reg_writes.append((k, self.wr["addr"], self.wr["value"], dict(self.wr)))
                self.wr = None
                nm = IDLE
            else:
                self.wr["late"] += 1
                if self.wr["late"] == 1:
                    self._anom("regwrite_stp_late", dict(self.wr))
                if self.wr["late"] > 50:
                    self._anom("regwrite_never_stopped", dict(self.wr))
                    nm = IDLE
        elif m == RD_TA:
            nm = RD_DATA
        elif m == RD_DATA:
            self.reg_reads.append((k, self.rd["addr"], di_s))
            nm = TA_OUT
            if self.hold_dir_after_read and self.queue:
                nm = RX
                _, cyc, name = self.queue.pop(0)
                self.cur = [0, cyc[1:], name]       # DIR is already high: no turnaround cycle
        elif m == RX:
            if self.cur[0] >= len(self.cur[1]):
                self.cur = None
                self.played += 1
                nm = TA_OUT
                # back-to-back activity without releasing DIR is expressed inside one activity
        elif m == TA_OUT:
            nm = IDLE

        # ---- start of a PHY-originated activity (never in a transmit body or in a read)
        if self.queue and nm in (IDLE, CMDWAIT, WR_DATA, WR_STP) and m != RX and self._due(self.queue[0][0], k, nm):
            if nm != IDLE:
                self.aborts.append((k, MODE_NAMES[nm], dict(self.wr) if self.wr else self.cmd_first))
            _, cyc, name = self.queue.pop(0)
            if nm == CMDWAIT and cyc[0][0] and (self.cmd_first[1] >> 6) == 1:
                self.notes["dirnxt_while_txcmd_pending"] = self.notes.get("dirnxt_while_txcmd_pending", 0) + 1
            if m == TX:
                self.notes["rx_activity_right_after_stp"] = self.notes.get("rx_activity_right_after_stp", 0) + 1
            self.cur = [0, cyc, name]
            self.wr = None
            nm = RX

        # ---- C. outputs for the next cycle
        self.kind = None
        if nm == IDLE or nm == TA_OUT:
            out = (0, 0, self._garbage() if self.rng.random() < 0.3 else 0)
        elif nm == CMDWAIT:
            if self.wait <= 0:
                out = (0, 1, 0)
            else:
                self.wait -= 1
                out = (0, 0, 0)
        elif nm == TX:
            out = (0, self._profile_nxt(self.tx_nxt), 0)
        elif nm == WR_DATA:
            out = (0, self._profile_nxt(self.reg_nxt), 0)
        elif nm == WR_STP:
            out = (0, int(self.rng.random() < 0.3), 0)
        elif nm == RD_TA:
            out = (1, 0, self._garbage())
            self.kind = "ta"
        elif nm == RD_DATA:
            out = (1, 0, self.regs.get(self.rd["addr"], 0))
            self.kind = "regdata"
        else:  # RX
            pos, cyc, _ = self.cur
            nxt, byte, kind = cyc[pos]
            self.cur[0] = pos + 1
            out = (1, nxt, byte)
            self.kind = kind
        self.mode = nm
        self.out = out
        b.set(u.dir.i, out[0])
        b.set(u.nxt.i, out[1])
        b.set(u.data.i, out[2])


# ---------------------------------------------------------------------- activity builders (stimulus only)

def act_rxcmds(rng, cmds, *, garbage=True):
    """DIR rises without NXT, turnaround, then the given RxCmd bytes, then DIR falls."""
    return [(0, rng.randrange(256) if garbage else 0, "ta")] + [(0, c, "cmd") for c in cmds]


def act_receive(rng, payload, *, start="dirnxt", status=0x0D, pre_cmds=(), first_gap=None, gap_profile="none",
                mid_cmd_p=0.0, end="dir", tail_cmds=(), idle_status=None, garbage=True, end_event=0):
    """One receive packet.

    start: "dirnxt" (DIR rises together with NXT; an RxCmd with RxActive may or may not follow),
           "rxcmd"  (DIR rises without NXT, [pre_cmds], RxCmd with RxActive=1).
    first_gap: cycles (filled with RxCmd repeats) between the start and the first data byte; 0 = the first
           byte follows immediately.
    gap_profile: "none" | ("random", p) | ("fixed", k): RxCmd cycles between data bytes (NXT throttling).
    end:   "dir" (DIR falls after the last byte), "rxcmd" (RxCmd with RxActive=0 -- RxEvent 00 or, with end_event=2, 10 -- then DIR falls).
    status: low nibble (LineState/VbusState) used for the RxCmds of this packet.
    """
    g = (lambda: rng.randrange(256)) if garbage else (lambda: 0)
    active_cmd = lambda: (status & 0x0F & ~3) | rng.randrange(4) | 0x10 | (rng.choice([0, 0x40]) if rng.random() < 0.2 else 0)
    cyc = []
    if start == "dirnxt":
        cyc.append((1, g(), "ta"))
        n = first_gap if first_gap is not None else rng.choice([0, 0, 1, 2])
        for _ in range(n):
            cyc.append((0, active_cmd(), "cmd"))
    else:
        cyc.append((0, g(), "ta"))
        for c in pre_cmds:
            cyc.append((0, c, "cmd"))
        cyc.append((0, active_cmd(), "cmd"))
        n = first_gap if first_gap is not None else rng.choice([0, 1, 1, 2, 3])
        for _ in range(n):
            cyc.append((0, active_cmd(), "cmd"))
    for i, byte in enumerate(payload):
        if i:
            if gap_profile == "none":
                k = 0
            elif gap_profile[0] == "fixed":
                k = gap_profile[1]
            else:
                k = 0
                while rng.random() < gap_profile[1] and k < 8:
                    k += 1
            if rng.random() < mid_cmd_p:
                k += 1
            for _ in range(k):
                cyc.append((0, active_cmd(), "cmd"))
        cyc.append((1, byte, "data"))
    if end == "rxcmd":
        idle = idle_status if idle_status is not None else (status & 0x0F)
        cyc.append((0, (idle & 0xCF) | ((end_event & 2) << 4), "cmd"))      # RxEvent 00, or 10 = HostDisconnect (RxActive 0 as well)
    for c in tail_cmds:
        cyc.append((0, c, "cmd"))
    return cyc
