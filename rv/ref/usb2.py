"""USB 2.0 packet codec (reference, no luna imports)."""
from .crc import usb2_token_crc5, usb2_crc16

OUT, IN, SOF, SETUP = 0x1, 0x9, 0x5, 0xD
DATA0, DATA1, DATA2, MDATA = 0x3, 0xB, 0x7, 0xF
ACK, NAK, STALL, NYET = 0x2, 0xA, 0xE, 0x6
PRE, SPLIT, PING, RESERVED = 0xC, 0x8, 0x4, 0x0

TOKEN_PIDS = (OUT, IN, SETUP, PING)
DATA_PIDS = (DATA0, DATA1, DATA2, MDATA)
HANDSHAKE_PIDS = (ACK, NAK, STALL, NYET)

PID_NAMES = {OUT: 'OUT', IN: 'IN', SOF: 'SOF', SETUP: 'SETUP', DATA0: 'DATA0', DATA1: 'DATA1',
             DATA2: 'DATA2', MDATA: 'MDATA', ACK: 'ACK', NAK: 'NAK', STALL: 'STALL', NYET: 'NYET',
             PRE: 'PRE', SPLIT: 'SPLIT', PING: 'PING', RESERVED: 'RSVD'}


def pid_byte(pid):
    return (pid & 0xF) | ((~pid & 0xF) << 4)


def pid_valid(byte):
    return (byte & 0xF) == ((~byte >> 4) & 0xF)


def token(pid, addr, endp):
    v = (addr & 0x7F) | ((endp & 0xF) << 7)
    return bytes([pid_byte(pid), v & 0xFF, ((v >> 8) & 0x7) | (usb2_token_crc5(addr, endp) << 3)])


def sof(frame):
    return token(SOF, frame & 0x7F, (frame >> 7) & 0xF)


def data(pid, payload):
    payload = bytes(payload)
    return bytes([pid_byte(pid)]) + payload + usb2_crc16(payload)


def handshake(pid):
    return bytes([pid_byte(pid)])


def setup_bytes(bmRequestType, bRequest, wValue, wIndex, wLength):
    return bytes([bmRequestType & 0xFF, bRequest & 0xFF, wValue & 0xFF, (wValue >> 8) & 0xFF,
                  wIndex & 0xFF, (wIndex >> 8) & 0xFF, wLength & 0xFF, (wLength >> 8) & 0xFF])


def classify(pkt):
    """Decode a raw packet (bytes incl. PID). Returns dict with kind and fields.

    kind in: 'empty', 'badpid', 'token', 'sof', 'data', 'handshake', 'special', 'malformed'
    """
    pkt = bytes(pkt)
    if len(pkt) == 0:
        return {'kind': 'empty'}
    b = pkt[0]
    if not pid_valid(b):
        return {'kind': 'badpid', 'byte': b}
    pid = b & 0xF
    if pid in TOKEN_PIDS or pid == SOF:
        if len(pkt) != 3:
            return {'kind': 'malformed', 'pid': pid, 'why': 'token_length_%d' % len(pkt)}
        v = pkt[1] | ((pkt[2] & 0x7) << 8)
        addr, endp = v & 0x7F, (v >> 7) & 0xF
        if (pkt[2] >> 3) != usb2_token_crc5(addr, endp):
            return {'kind': 'malformed', 'pid': pid, 'why': 'crc5'}
        if pid == SOF:
            return {'kind': 'sof', 'pid': pid, 'frame': v}
        return {'kind': 'token', 'pid': pid, 'addr': addr, 'endp': endp}
    if pid in DATA_PIDS:
        if len(pkt) < 3:
            return {'kind': 'malformed', 'pid': pid, 'why': 'data_short'}
        payload = pkt[1:-2]
        if usb2_crc16(payload) != pkt[-2:]:
            return {'kind': 'malformed', 'pid': pid, 'why': 'crc16', 'payload': payload}
        return {'kind': 'data', 'pid': pid, 'payload': payload}
    if pid in HANDSHAKE_PIDS:
        if len(pkt) != 1:
            return {'kind': 'malformed', 'pid': pid, 'why': 'handshake_length'}
        return {'kind': 'handshake', 'pid': pid}
    return {'kind': 'special', 'pid': pid}
