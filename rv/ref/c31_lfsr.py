"""Reference USB3 scrambler keystream (USB 3.2 appendix B), written from the specification text:

16-bit LFSR, polynomial G(x) = x^16 + x^5 + x^4 + x^3 + 1, bit-serial Galois form.  Per serial shift the
output bit is D15; D15 is fed back into D0, D3, D4 and D5.  A symbol consumes eight shifts; the first bit
shifted out scrambles bit 0 of the symbol, the last bit 7.  No luna code is used here.
"""

POLY_LOW = (1 << 5) | (1 << 4) | (1 << 3) | 1     # x^5 + x^4 + x^3 + 1


def shift(state):
    """one serial shift; returns (new_state, output_bit)"""
    out = (state >> 15) & 1
    state = (state << 1) & 0xFFFF
    if out:
        state ^= POLY_LOW
    return state, out


def next_byte(state):
    """returns (state after 8 shifts, keystream byte)"""
    byte = 0
    for i in range(8):
        state, bit = shift(state)
        byte |= bit << i
    return state, byte


def next_word(state, nbytes=4):
    """returns (state after nbytes symbols, [keystream bytes])"""
    ks = []
    for _ in range(nbytes):
        state, b = next_byte(state)
        ks.append(b)
    return state, ks


# Specification vector: scrambling zeroes from the reset state 0xFFFF gives the TSEQ data symbols
# D31.7 D23.0 D0.6 D20.0 D18.5 D7.7 D2.0 D2.4 D18.3 D14.3 D8.1 D6.5 D30.5 D13.3 D31.5 [USB3.2 table 6-3 / appendix B].
SPEC_VECTOR = [0xFF, 0x17, 0xC0, 0x14, 0xB2, 0xE7, 0x02, 0x82, 0x72, 0x6E, 0x28, 0xA6, 0xBE, 0x6D, 0xBF]


def selftest():
    s = 0xFFFF
    got = []
    for _ in SPEC_VECTOR:
        s, b = next_byte(s)
        got.append(b)
    return got == SPEC_VECTOR


_WORD_CACHE = {}


def word_step(state):
    """cached (next_state, (k0,k1,k2,k3)) for a 4-symbol word"""
    r = _WORD_CACHE.get(state)
    if r is None:
        ns, ks = next_word(state, 4)
        r = _WORD_CACHE[state] = (ns, tuple(ks))
    return r
