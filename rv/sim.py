"""Cycle-synchronous simulation bench on top of amaranth.sim (pysim).

One async testbench owns the clock loop.  Every cycle it
  1. applies the values that drivers queued with `set()`,
  2. waits for the next rising edge of the primary domain and *samples* every watched signal at that
     edge (`ctx.tick().sample(...)`: exactly the values the DUT's flip-flops saw),
  3. calls every monitor (a plain callable taking the bench),
  4. advances every driver (a python generator) by one `yield`.

So drivers and monitors behave like synchronous logic clocked together with the DUT: what they read
with `get()` is the value at the last edge, what they `set()` is visible to the DUT before the next
edge.  This is the same semantics as the `add_sync_process` style luna's own tests use.

pysim silently returns the reset value of a Signal that is not part of the design, so monitors must
count the events they see and checks must declare which counters have to be non-zero.
"""
import os
import sys
import warnings

from amaranth.sim import Simulator
from amaranth.hdl import Signal, Const


class SimDone(Exception):
    pass


class Bench:
    def __init__(self, dut, *, domain="sync", freq=60e6, clocks=None, max_cycles=100000):
        self.dut = dut
        self.domain = domain
        self.sim = Simulator(dut)
        self.sim.add_clock(1 / freq, domain=domain)
        for d, f in (clocks or {}).items():
            self.sim.add_clock(1 / f, domain=d)
        self.cycle = 0
        self.max_cycles = max_cycles
        self.hit_max_cycles = False
        self._watch = []
        self._idx = {}
        self._vals = ()
        self._pending = {}
        self._drivers = []       # [gen, is_main]
        self._monitors = []
        self._started = False
        self._stop = False

    # ------------------------------------------------------------------ registration
    def watch(self, *sigs):
        for s in sigs:
            if id(s) not in self._idx:
                if self._started:
                    raise RuntimeError("watch() after start: %r" % (s,))
                self._idx[id(s)] = len(self._watch)
                self._watch.append(s)
        return self

    def watch_record(self, rec):
        for name in rec.fields:
            f = rec[name]
            if hasattr(f, "fields"):
                self.watch_record(f)
            else:
                self.watch(f)
        return self

    def add_driver(self, gen, main=True):
        """`gen` is a generator object; it is advanced once per cycle."""
        self._drivers.append([gen, main])

    def add_monitor(self, fn):
        self._monitors.append(fn)

    # ------------------------------------------------------------------ access
    def get(self, sig):
        """Value of `sig` sampled at the most recent clock edge."""
        return self._vals[self._idx[id(sig)]]

    def set(self, sig, value):
        self._pending[id(sig)] = (sig, int(value))

    def stop(self):
        self._stop = True

    # ------------------------------------------------------------------ run
    def run(self):
        self._started = True
        if not self._watch:
            raise RuntimeError("nothing watched")

        async def tb(ctx):
            watch = tuple(self._watch)
            tick = ctx.tick(self.domain).sample(*watch)
            # let drivers set initial values
            self._vals = tuple(ctx.get(s) for s in watch)
            self._advance_drivers()
            while True:
                if self._pending:
                    for sig, val in self._pending.values():
                        ctx.set(sig, val)
                    self._pending.clear()
                self._vals = (await tick)[2:]
                self.cycle += 1
                for m in self._monitors:
                    m(self)
                if not self._advance_drivers() or self._stop:
                    break
                if self.cycle >= self.max_cycles:
                    self.hit_max_cycles = True
                    break

        self.sim.add_testbench(tb)
        with warnings.catch_warnings():
            warnings.simplefilter("ignore")
            self.sim.run()
        return self

    def _advance_drivers(self):
        any_main = False
        alive = []
        for entry in self._drivers:
            gen, main = entry
            try:
                next(gen)
            except StopIteration:
                continue
            alive.append(entry)
            any_main = any_main or main
        self._drivers = alive
        return any_main


# ---------------------------------------------------------------------- instance registry

class Registry:
    """Harness-side capture of objects created inside elaborate().

    `Registry(cls1, cls2)` wraps `__init__` of the given classes for the lifetime of the `with`
    block (or until `.restore()`); each constructed instance is appended to `.instances[cls]`.
    Behaviour of the code under test is unchanged.  Elaboration happens inside `Simulator(dut)`,
    so build the Bench inside the `with` block.
    """

    def __init__(self, *classes):
        self.classes = classes
        self.instances = {c: [] for c in classes}
        self._orig = {}

    def __enter__(self):
        for c in self.classes:
            orig = c.__init__
            self._orig[c] = orig
            reg = self.instances[c]

            def make(orig, reg):
                def __init__(self, *a, **k):
                    orig(self, *a, **k)
                    reg.append(self)
                return __init__
            c.__init__ = make(orig, reg)
        return self

    def __exit__(self, *exc):
        self.restore()

    def restore(self):
        for c, orig in self._orig.items():
            c.__init__ = orig
        self._orig = {}

    def one(self, cls, index=0):
        lst = self.instances[cls]
        if len(lst) <= index:
            return None
        return lst[index]


def wait(n):
    """driver helper: `yield from wait(n)`"""
    for _ in range(n):
        yield


def with_bystanders(dut, *domains):
    """Wrap `dut` so that the named clock domains exist in the design (each drives one free-running toggle).  Used when a
    DUT is asked to live in a non-default domain: the Bench clocks that domain, and the bystander domains get unrelated
    clocks (Bench(clocks={...})) -- nothing in the DUT may depend on them."""
    from amaranth import Elaboratable, Module, Signal

    class _Wrapper(Elaboratable):
        def __init__(self):
            self.dut = dut
            self.bystanders = {d: Signal(name="bystander_" + d) for d in domains}

        def elaborate(self, platform):
            m = Module()
            m.submodules.dut = dut
            for d, s in self.bystanders.items():
                m.d[d] += s.eq(~s)
            return m
    return _Wrapper()
