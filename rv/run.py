#!/venv/bin/python
"""CLI: rv/run.py <Cxx> --tier quick|thorough [--replay file] [--cases N] [--jobs N] [--seed S]"""
import argparse
import json
import os
import sys

sys.path.insert(0, os.path.dirname(os.path.dirname(os.path.abspath(__file__))))
from rv import core  # noqa: E402


def main():
    ap = argparse.ArgumentParser()
    ap.add_argument("prop")
    ap.add_argument("--tier", default=os.environ.get("VERIF_TIER", "quick"), choices=["quick", "thorough"])
    ap.add_argument("--replay")
    ap.add_argument("--cases", type=int)
    ap.add_argument("--jobs", type=int)
    ap.add_argument("--seed", default=os.environ.get("VERIF_SEED", "0"))
    a = ap.parse_args()
    try:
        seed = int(a.seed)
    except ValueError:
        seed = int.from_bytes(a.seed.encode(), "little") % (1 << 31)
    sys.path.insert(0, core.REPO)
    core.ensure_deps()      # offline install of icontract into .deps if a fresh restore lacks it
    if a.replay:
        with open(a.replay) as f:
            rp = json.load(f)
        rc = core.run_property(rp["property"], rp.get("tier", a.tier), rp.get("base_seed", seed),
                               jobs=1, only_seeds=[rp["case_seed"]])
    else:
        rc = core.run_property(a.prop.upper(), a.tier, seed, jobs=a.jobs, n_cases=a.cases)
    sys.exit(rc)


if __name__ == "__main__":
    main()
